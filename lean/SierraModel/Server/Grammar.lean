/-
C21 — the command grammar of sierradb-server (crates/sierradb-server/src/request/*.rs doc comments,
README.md "Commands"), as data:

* `Tok`      one argument frame of a command (`BlobString` / `SimpleString` / verbatim text): its bytes,
             already classified as valid UTF-8 text (decoded to characters) or not.
* lexical functions the server applies to a token (`str::to_uppercase` on keywords, `u64::from_str`,
  `Uuid::parse_str`, `str::trim`, `StreamId::new`, `split_once('=')`, `split(',')`).
* `Request`  what a command parser produces (the fields of `ESub`, `EPSub`, `EAppend`, … with
             `HashSet`/`HashMap` values as sorted duplicate-free lists).
* `DocCmd`   one constructor per documented command form.  A `DocCmd` is a *concrete syntax tree*:
             every keyword, identifier and number is carried as the lexeme that is written on the wire,
             so "keywords in any case", "numbers written `007` or `+7`", "uuids in any accepted
             notation" and "optional clauses in any order" are all values of the type.  `WF` are the
             decidable well-formedness predicates of the lexemes, `render` the token list, `denote` the
             request the form denotes.

Nothing here imports Mathlib (the driver links this file).
-/
import SierraModel.Store.Version

namespace SierraModel.Server
open SierraModel.Version (parseU64 Expected)

/-- one argument frame -/
inductive Tok where
  | text (cs : List Char)     -- bytes are valid UTF-8; `cs` = the decoded string
  | blob (bs : List Nat)      -- bytes are not valid UTF-8 (only acceptable as PAYLOAD / METADATA data)
  deriving DecidableEq, Repr

/-! ## Lexical functions -/

/-- `u16::from_str` (`PartitionId`): same syntax as u64, value ≤ 65535 -/
def parseU16 (s : List Char) : Option Nat :=
  match parseU64 s with
  | some v => if v ≤ 65535 then some v else none
  | none => none

/-- `char::is_whitespace` (Unicode `White_Space`) -/
def isWs (c : Char) : Bool :=
  let n := c.toNat
  (9 ≤ n && n ≤ 13) || n == 32 || n == 0x85 || n == 0xA0 || n == 0x1680 || (0x2000 ≤ n && n ≤ 0x200A)
    || n == 0x2028 || n == 0x2029 || n == 0x202F || n == 0x205F || n == 0x3000

/-- `str::trim` -/
def trim (s : List Char) : List Char := ((s.dropWhile isWs).reverse.dropWhile isWs).reverse

/-- `str::to_uppercase` per character, exact wherever the result can be an ASCII string: ASCII letters,
and the ten non-ASCII characters whose upper-case expansion is pure ASCII (ß ı ſ ﬀ ﬁ ﬂ ﬃ ﬄ ﬅ ﬆ).  Every
other non-ASCII character upper-cases to a string containing a non-ASCII character; it is mapped to
itself, which is indistinguishable when the result is compared with an ASCII keyword. -/
def upperChar (c : Char) : List Char :=
  let n := c.toNat
  if 97 ≤ n ∧ n ≤ 122 then [Char.ofNat (n - 32)]
  else if n < 128 then [c]
  else if n = 0xDF then ['S', 'S']
  else if n = 0x131 then ['I']
  else if n = 0x17F then ['S']
  else if n = 0xFB00 then ['F', 'F']
  else if n = 0xFB01 then ['F', 'I']
  else if n = 0xFB02 then ['F', 'L']
  else if n = 0xFB03 then ['F', 'F', 'I']
  else if n = 0xFB04 then ['F', 'F', 'L']
  else if n = 0xFB05 then ['S', 'T']
  else if n = 0xFB06 then ['S', 'T']
  else [c]

def upper : List Char → List Char
  | [] => []
  | c :: cs => upperChar c ++ upper cs

namespace KW
def partitionKey : List Char := ['P', 'A', 'R', 'T', 'I', 'T', 'I', 'O', 'N', '_', 'K', 'E', 'Y']
def from_ : List Char := ['F', 'R', 'O', 'M']
def window : List Char := ['W', 'I', 'N', 'D', 'O', 'W']
def latest : List Char := ['L', 'A', 'T', 'E', 'S', 'T']
def map : List Char := ['M', 'A', 'P']
def default_ : List Char := ['D', 'E', 'F', 'A', 'U', 'L', 'T']
def eventId : List Char := ['E', 'V', 'E', 'N', 'T', '_', 'I', 'D']
def expectedVersion : List Char :=
  ['E', 'X', 'P', 'E', 'C', 'T', 'E', 'D', '_', 'V', 'E', 'R', 'S', 'I', 'O', 'N']
def timestamp : List Char := ['T', 'I', 'M', 'E', 'S', 'T', 'A', 'M', 'P']
def payload : List Char := ['P', 'A', 'Y', 'L', 'O', 'A', 'D']
def metadata : List Char := ['M', 'E', 'T', 'A', 'D', 'A', 'T', 'A']
def count : List Char := ['C', 'O', 'U', 'N', 'T']
def any : List Char := ['A', 'N', 'Y']
def exists_ : List Char := ['E', 'X', 'I', 'S', 'T', 'S']
def empty : List Char := ['E', 'M', 'P', 'T', 'Y']
def star : List Char := ['*']
def minus : List Char := ['-']
def plus : List Char := ['+']
end KW

/-- the clause keywords: what `parser::RESERVED_KEYWORDS` lists (a stream id may not be one of them) -/
def reserved : List (List Char) :=
  [KW.partitionKey, KW.from_, KW.window, KW.latest, KW.map, KW.default_, KW.eventId, KW.expectedVersion,
   KW.timestamp, KW.payload, KW.metadata, KW.count]

/-- `parser::is_reserved_keyword`: the token is accepted by some `keyword(kw)` clause parser -/
def isReserved (cs : List Char) : Bool := reserved.contains (upper cs)

/-- `parser::keyword(kw)` on one frame -/
def isKw (kw : List Char) : Tok → Bool
  | .text cs => upper cs == kw
  | .blob _ => false

def utf8Len : List Char → Nat
  | [] => 0
  | c :: cs => c.utf8Size + utf8Len cs

/-- `StreamId::new`: 1..=64 bytes, no NUL -/
def streamIdOk (cs : List Char) : Bool :=
  1 ≤ utf8Len cs && utf8Len cs ≤ 64 && !cs.contains (Char.ofNat 0)

def hexVal (c : Char) : Option Nat :=
  let n := c.toNat
  if 48 ≤ n ∧ n ≤ 57 then some (n - 48)
  else if 97 ≤ n ∧ n ≤ 102 then some (n - 87)
  else if 65 ≤ n ∧ n ≤ 70 then some (n - 55)
  else none

def parseHex : List Char → Nat → Option Nat
  | [], acc => some acc
  | c :: cs, acc =>
    match hexVal c with
    | some v => parseHex cs (acc * 16 + v)
    | none => none

/-- 8-4-4-4-12 → the 32 hex digits -/
def hyphenated (s : List Char) : Option (List Char) :=
  if s.length = 36 ∧ s.getD 8 'x' = '-' ∧ s.getD 13 'x' = '-' ∧ s.getD 18 'x' = '-' ∧ s.getD 23 'x' = '-' then
    some (s.take 8 ++ (s.drop 9).take 4 ++ (s.drop 14).take 4 ++ (s.drop 19).take 4 ++ s.drop 24)
  else none

def urnPrefix : List Char := ['u', 'r', 'n', ':', 'u', 'u', 'i', 'd', ':']

/-- `Uuid::try_parse`: 32 hex digits | hyphenated | `{hyphenated}` | `urn:uuid:hyphenated` -/
def uuidBody (s : List Char) : Option (List Char) :=
  if s.length = 32 then some s
  else if s.length = 36 then hyphenated s
  else if s.length = 38 then
    (if s.head? = some '{' ∧ s.getLast? = some '}' then hyphenated ((s.drop 1).take 36) else none)
  else if s.length = 45 then
    (if s.take 9 = urnPrefix then hyphenated (s.drop 9) else none)
  else none

/-- `Uuid::parse_str` as a 128-bit number -/
def parseUuid (s : List Char) : Option Nat :=
  match uuidBody s with
  | some b => parseHex b 0
  | none => none

/-- `parser::uuid`: `Uuid::parse_str(s.trim())` -/
def uuidOf (s : List Char) : Option Nat := parseUuid (trim s)

/-- `str::split_once(d)` -/
def splitOnce (d : Char) : List Char → Option (List Char × List Char)
  | [] => none
  | c :: cs =>
    if c = d then some ([], cs)
    else match splitOnce d cs with
      | some (a, b) => some (c :: a, b)
      | none => none

/-- `str::split(d)` (always at least one part) -/
def splitAll (d : Char) : List Char → List (List Char)
  | [] => [[]]
  | c :: cs =>
    if c = d then [] :: splitAll d cs
    else match splitAll d cs with
      | p :: ps => (c :: p) :: ps
      | [] => [[c]]

/-- `parser::partition_ids`: comma separated, each part trimmed, each a u16 -/
def parsePidList (s : List Char) : Option (List Nat) := (splitAll ',' s).mapM (fun p => parseU16 (trim p))

/-- `<partition>=<sequence>` (`parser::partition_id_sequence`) -/
def parsePidSeq (s : List Char) : Option (Nat × Nat) :=
  match splitOnce '=' s with
  | some (a, b) =>
    match parseU16 a, parseU64 b with
    | some p, some q => some (p, q)
    | _, _ => none
  | none => none

/-- the checks `parser::stream_id_version` applies once the token is known to contain `=` -/
def streamVersionOf (ab : List Char × List Char) : Option (List Char × Nat) :=
  if streamIdOk ab.1 then
    match parseU64 ab.2 with
    | some v => some (ab.1, v)
    | none => none
  else none

/-- `expected_version()`: a number, else ANY / EXISTS / EMPTY in any case -/
def expectedOf (s : List Char) : Option Expected :=
  match parseU64 s with
  | some v => some (.exact v)
  | none =>
    if upper s = KW.any then some .any
    else if upper s = KW.exists_ then some .exists_
    else if upper s = KW.empty then some .empty
    else none

inductive RangeV where
  | start | stop | value (n : Nat)
  deriving DecidableEq, Repr

/-- `range_value()`: `-`, `+`, else a number -/
def rangeOf (s : List Char) : Option RangeV :=
  if upper s = KW.minus then some .start
  else if upper s = KW.plus then some .stop
  else (parseU64 s).map .value

inductive PSel where
  | byId (n : Nat) | byKey (u : Nat)
  deriving DecidableEq, Repr

/-- `partition_selector()`: a uuid, else a partition id -/
def pselOf (s : List Char) : Option PSel :=
  match uuidOf s with
  | some u => some (.byKey u)
  | none => (parseU16 s).map .byId

/-! ## Requests -/

/-- lexicographic order on strings (= byte order of their UTF-8 encodings) -/
def charsLt : List Char → List Char → Bool
  | [], [] => false
  | [], _ :: _ => true
  | _ :: _, [] => false
  | a :: as, b :: bs => if a.toNat < b.toNat then true else if b.toNat < a.toNat then false else charsLt as bs

def optLt : Option Nat → Option Nat → Bool
  | none, some _ => true
  | some a, some b => a < b
  | _, _ => false

def selLt (a b : List Char × Option Nat) : Bool :=
  if a.1 = b.1 then optLt a.2 b.2 else charsLt a.1 b.1

/-- insert into a sorted duplicate-free list (a `HashSet` as a value) -/
def insertUniq {α : Type} [DecidableEq α] (lt : α → α → Bool) (x : α) : List α → List α
  | [] => [x]
  | y :: ys => if x = y then y :: ys else if lt x y then x :: y :: ys else y :: insertUniq lt x ys

def canonSet {α : Type} [DecidableEq α] (lt : α → α → Bool) (l : List α) : List α :=
  l.foldl (fun acc x => insertUniq lt x acc) []

/-- insert or overwrite (`HashMap::insert`) in a key-sorted association list -/
def upsert {κ ν : Type} [DecidableEq κ] (lt : κ → κ → Bool) (k : κ) (v : ν) : List (κ × ν) → List (κ × ν)
  | [] => [(k, v)]
  | (k', v') :: rest =>
    if k = k' then (k, v) :: rest else if lt k k' then (k, v) :: (k', v') :: rest else (k', v') :: upsert lt k v rest

/-- `iter.collect::<HashMap<_,_>>()`: later entries overwrite earlier ones -/
def canonMap {κ ν : Type} [DecidableEq κ] (lt : κ → κ → Bool) (l : List (κ × ν)) : List (κ × ν) :=
  l.foldl (fun acc kv => upsert lt kv.1 kv.2 acc) []

def lookup {κ ν : Type} [DecidableEq κ] (k : κ) : List (κ × ν) → Option ν
  | [] => none
  | (k', v) :: rest => if k = k' then some v else lookup k rest

def natLt (a b : Nat) : Bool := a < b

/-- `FROM …` of ESUB as parsed (`FromVersionsArg`) -/
inductive EsubFromV where
  | latest | all (n : Nat) | map (entries : List (List Char × Nat))
  deriving DecidableEq, Repr

/-- `FromVersions` (keys of `Streams` without the partition key, which the selected stream determines) -/
inductive FromVersions where
  | latest | all (n : Nat) | streams (m : List (List Char × Nat))
  deriving DecidableEq, Repr

/-- `FromSequences` -/
inductive FromSeqs where
  | latest | all (n : Nat) | partitions (m : List (Nat × Nat)) (fallback : Option Nat)
  deriving DecidableEq, Repr

/-- the fields of `EAppend` / `emappend::Event` (`partition_key` only in EAPPEND) -/
structure AppendEv where
  stream : List Char
  name : List Char
  eventId : Option Nat
  partitionKey : Option Nat
  expected : Expected
  timestamp : Option Nat
  payload : Tok
  metadata : Tok
  deriving DecidableEq, Repr

inductive Request where
  /-- `SubscriptionMatcher::Stream`; `pk = none`: the key the server derives from the stream id -/
  | esubStream (stream : List Char) (pk : Option Nat) (fromVersion : Option Nat) (window : Option Nat)
  | esubStreams (streams : List (List Char × Option Nat)) (fromVersions : FromVersions) (window : Option Nat)
  | epsubAll (fromSeqs : FromSeqs) (window : Option Nat)
  | epsubOne (partition : Nat) (fromSeq : Option Nat) (window : Option Nat)
  | epsubMany (partitions : List Nat) (fromSeqs : FromSeqs) (window : Option Nat)
  | eappend (ev : AppendEv)
  | emappend (pk : Nat) (events : List AppendEv)
  | escan (stream : List Char) (lo hi : RangeV) (pk : Option Nat) (count : Option Nat)
  | epscan (partition : PSel) (lo hi : RangeV) (count : Option Nat)
  | eget (id : Nat)
  | esver (stream : List Char) (pk : Option Nat)
  | epseq (partition : PSel)
  | eack (id : Nat) (cursor : Nat)
  deriving DecidableEq, Repr

/-- the stream ids a request names -/
def Request.streamIds : Request → List (List Char)
  | .esubStream s _ _ _ => [s]
  | .esubStreams ss (.streams m) _ => ss.map (·.1) ++ m.map (·.1)
  | .esubStreams ss _ _ => ss.map (·.1)
  | .eappend ev => [ev.stream]
  | .emappend _ evs => evs.map (·.stream)
  | .escan s _ _ _ _ => [s]
  | .esver s _ => [s]
  | _ => []

/-- the `.map(|(selector, from_versions, window_size)| …)` closure of `ESub::parser` -/
def buildEsub (sels : List (List Char × Option Nat)) (f : Option EsubFromV) (w : Option Nat) : Request :=
  match canonSet selLt sels with
  | [(s, pk)] =>
    .esubStream s pk
      (match f with
       | none | some .latest => none
       | some (.all n) => some n
       | some (.map m) => lookup s (canonMap charsLt m)) w
  | set =>
    .esubStreams set
      (match f with
       | none | some .latest => .latest
       | some (.all n) => .all n
       | some (.map m) => .streams ((canonMap charsLt m).filter (fun e => set.any (fun x => x.1 = e.1)))) w

inductive EpsubSelV where
  | all | one (p : Nat) | many (ps : List Nat)
  deriving DecidableEq, Repr

/-- the `.map(…)` closure of `EPSub::parser` -/
def buildEpsub (sel : EpsubSelV) (f : Option FromSeqs) (w : Option Nat) : Request :=
  match sel with
  | .all => .epsubAll (f.getD .latest) w
  | .one p =>
    .epsubOne p
      (match f with
       | none | some .latest => none
       | some (.all n) => some n
       | some (.partitions m fb) => (lookup p m).orElse (fun _ => fb)) w
  | .many ps => .epsubMany (canonSet natLt ps) (f.getD .latest) w

/-! ### optional clauses of EAPPEND / EMAPPEND / ESCAN -/

inductive ClauseKind where
  | eventId | partitionKey | expectedVersion | timestamp | payload | metadata | count
  deriving DecidableEq, Repr

/-- `OptionalArg` (eappend.rs / emappend.rs) -/
inductive ClauseVal where
  | eventId (u : Nat) | partitionKey (u : Nat) | expectedVersion (e : Expected) | timestamp (n : Nat)
  | payload (d : Tok) | metadata (d : Tok)
  deriving DecidableEq, Repr

def ClauseVal.kind : ClauseVal → ClauseKind
  | .eventId _ => .eventId | .partitionKey _ => .partitionKey | .expectedVersion _ => .expectedVersion
  | .timestamp _ => .timestamp | .payload _ => .payload | .metadata _ => .metadata

/-- the accumulator of the `for arg in args` loop; `none` = "not specified yet" (for the expected version,
payload and metadata that is the `*_seen` flag, the field then still holds its default) -/
structure EvAcc where
  eventId : Option Nat := none
  partitionKey : Option Nat := none
  expected : Option Expected := none
  timestamp : Option Nat := none
  payload : Option Tok := none
  metadata : Option Tok := none
  deriving DecidableEq, Repr

/-- one iteration of the loop: `none` = "… already specified" -/
def EvAcc.step (a : EvAcc) : ClauseVal → Option EvAcc
  | .eventId u => if a.eventId.isSome then none else some { a with eventId := some u }
  | .partitionKey u => if a.partitionKey.isSome then none else some { a with partitionKey := some u }
  | .expectedVersion e => if a.expected.isSome then none else some { a with expected := some e }
  | .timestamp n => if a.timestamp.isSome then none else some { a with timestamp := some n }
  | .payload d => if a.payload.isSome then none else some { a with payload := some d }
  | .metadata d => if a.metadata.isSome then none else some { a with metadata := some d }

def foldClauses (a : EvAcc) : List ClauseVal → Option EvAcc
  | [] => some a
  | v :: vs => match a.step v with
    | some a' => foldClauses a' vs
    | none => none

def EvAcc.finish (a : EvAcc) (stream name : List Char) : AppendEv :=
  { stream := stream, name := name, eventId := a.eventId, partitionKey := a.partitionKey,
    expected := a.expected.getD .any, timestamp := a.timestamp,
    payload := a.payload.getD (.text []), metadata := a.metadata.getD (.text []) }

/-- the `.and_then(|(stream_id, event_name, args)| …)` closure of `EAppend::parser` / `Event::parser` -/
def buildEvent (stream name : List Char) (args : List ClauseVal) : Option AppendEv :=
  (foldClauses {} args).map (fun a => a.finish stream name)

inductive ScanVal where
  | partitionKey (u : Nat) | count (n : Nat)
  deriving DecidableEq, Repr

def ScanVal.kind : ScanVal → ClauseKind
  | .partitionKey _ => .partitionKey | .count _ => .count

def foldScan (pk count : Option Nat) : List ScanVal → Option (Option Nat × Option Nat)
  | [] => some (pk, count)
  | .partitionKey u :: vs => if pk.isSome then none else foldScan (some u) count vs
  | .count n :: vs => if count.isSome then none else foldScan pk (some n) vs

/-! ## Documented command forms (concrete syntax trees) -/

/-- `PARTITION_KEY <partition_key>` -/
structure PkClause where
  kw : List Char
  uuid : List Char
  deriving DecidableEq, Repr

/-- `WINDOW <size>`, `COUNT <count>`, `DEFAULT <seq>` -/
structure NumClause where
  kw : List Char
  num : List Char
  deriving DecidableEq, Repr

/-- `<stream_id> [PARTITION_KEY <pk>]` -/
structure StreamSel where
  id : List Char
  pk : Option PkClause
  deriving DecidableEq, Repr

inductive EsubFrom where
  | latest (kwFrom kwLatest : List Char)                           -- FROM LATEST
  | version (kwFrom num : List Char)                               -- FROM <version>
  | map (kwFrom kwMap : List Char) (entries : List (List Char))    -- FROM MAP <stream>=<ver>...
  deriving DecidableEq, Repr

inductive EpsubSel where
  | all (lex : List Char)       -- *
  | one (lex : List Char)       -- <partition_id>
  | list (lex : List Char)      -- <p1>,<p2>,<p3>
  deriving DecidableEq, Repr

inductive EpsubFrom where
  | latest (kwFrom kwLatest : List Char)
  | seq (kwFrom num : List Char)
  | map (kwFrom kwMap : List Char) (entries : List (List Char)) (dflt : Option NumClause)
  deriving DecidableEq, Repr

inductive AppendClause where
  | eventId (kw uuid : List Char)
  | partitionKey (kw uuid : List Char)
  | expectedVersion (kw ver : List Char)
  | timestamp (kw num : List Char)
  | payload (kw : List Char) (data : Tok)
  | metadata (kw : List Char) (data : Tok)
  deriving DecidableEq, Repr

/-- `<stream_id> <event_name> [clauses in any order]` -/
structure EventDoc where
  stream : List Char
  name : List Char
  clauses : List AppendClause
  deriving DecidableEq, Repr

inductive ScanClause where
  | partitionKey (kw uuid : List Char)
  | count (kw num : List Char)
  deriving DecidableEq, Repr

inductive Cmd where
  | esub | epsub | eappend | emappend | escan | epscan | eget | esver | epseq | eack
  deriving DecidableEq, Repr

inductive DocCmd where
  /-- `ESUB <stream_id> [PARTITION_KEY <pk>] … [FROM LATEST | FROM <version> | FROM MAP <s>=<v>…] [WINDOW <size>]` -/
  | esub (sels : List StreamSel) (from_ : Option EsubFrom) (window : Option NumClause)
  /-- `EPSUB * | <partition_id> | <p1>,<p2>… [FROM LATEST | FROM <seq> | FROM MAP <p>=<s>… [DEFAULT <seq>]] [WINDOW <size>]` -/
  | epsub (sel : EpsubSel) (from_ : Option EpsubFrom) (window : Option NumClause)
  /-- `EAPPEND <stream_id> <event_name> [EVENT_ID …] [PARTITION_KEY …] [EXPECTED_VERSION …] [TIMESTAMP …] [PAYLOAD …] [METADATA …]` -/
  | eappend (ev : EventDoc)
  /-- `EMAPPEND <partition_key> <stream_id1> <event_name1> [clauses] [<stream_id2> <event_name2> …]` -/
  | emappend (pk : List Char) (events : List EventDoc)
  /-- `ESCAN <stream_id> <start_version> <end_version> [PARTITION_KEY <pk>] [COUNT <count>]` -/
  | escan (stream start stop : List Char) (clauses : List ScanClause)
  /-- `EPSCAN <partition> <start_sequence> <end_sequence> [COUNT <count>]` -/
  | epscan (part start stop : List Char) (count : Option NumClause)
  /-- `EGET <event_id>` -/
  | eget (id : List Char)
  /-- `ESVER <stream_id> [PARTITION_KEY <partition_key>]` -/
  | esver (stream : List Char) (pk : Option PkClause)
  /-- `EPSEQ <partition>` -/
  | epseq (part : List Char)
  /-- `EACK <subscription_id> <sequence_or_version>` -/
  | eack (id num : List Char)
  deriving Repr

def DocCmd.cmd : DocCmd → Cmd
  | .esub .. => .esub | .epsub .. => .epsub | .eappend .. => .eappend | .emappend .. => .emappend
  | .escan .. => .escan | .epscan .. => .epscan | .eget .. => .eget | .esver .. => .esver
  | .epseq .. => .epseq | .eack .. => .eack

/-! ### well-formedness of the lexemes (all decidable) -/

/-- a keyword written in any case -/
def wfKw (K cs : List Char) : Prop := upper cs = K
/-- a stream id: 1..64 bytes, no NUL, not a reserved clause keyword -/
def wfStream (cs : List Char) : Prop := isReserved cs = false ∧ streamIdOk cs = true
def wfUuid (cs : List Char) : Prop := (uuidOf cs).isSome = true
def wfU64 (cs : List Char) : Prop := (parseU64 cs).isSome = true

def PkClause.WF (p : PkClause) : Prop := wfKw KW.partitionKey p.kw ∧ wfUuid p.uuid
def NumClause.WF (K : List Char) (c : NumClause) : Prop := wfKw K c.kw ∧ wfU64 c.num
/-- `WINDOW <size>`: size ≥ 1 -/
def NumClause.WFWindow (c : NumClause) : Prop := wfKw KW.window c.kw ∧ ∃ v, parseU64 c.num = some v ∧ 1 ≤ v

def StreamSel.WF (s : StreamSel) : Prop := wfStream s.id ∧ ∀ p, s.pk = some p → p.WF

/-- `<stream>=<version>`: contains `=`, stream part 1..64 bytes without NUL, version a u64 -/
def wfStreamVersion (e : List Char) : Prop := ((splitOnce '=' e).bind streamVersionOf).isSome = true
/-- `<partition>=<sequence>` -/
def wfPidSeq (e : List Char) : Prop := (parsePidSeq e).isSome = true

def EsubFrom.WF : EsubFrom → Prop
  | .latest kf kl => wfKw KW.from_ kf ∧ wfKw KW.latest kl
  | .version kf n => wfKw KW.from_ kf ∧ wfU64 n
  | .map kf km es => wfKw KW.from_ kf ∧ wfKw KW.map km ∧ es ≠ [] ∧ ∀ e ∈ es, wfStreamVersion e

def EpsubSel.WF : EpsubSel → Prop
  | .all lex => wfKw KW.star lex
  | .one lex => (parseU16 lex).isSome = true
  /- a list is a token that is neither `*` nor a single partition id -/
  | .list lex => upper lex ≠ KW.star ∧ parseU16 lex = none ∧ (parsePidList lex).isSome = true

def EpsubFrom.WF : EpsubFrom → Prop
  | .latest kf kl => wfKw KW.from_ kf ∧ wfKw KW.latest kl
  | .seq kf n => wfKw KW.from_ kf ∧ wfU64 n
  | .map kf km es d => wfKw KW.from_ kf ∧ wfKw KW.map km ∧ es ≠ [] ∧ (∀ e ∈ es, wfPidSeq e) ∧
      ∀ c, d = some c → c.WF KW.default_

def AppendClause.kind : AppendClause → ClauseKind
  | .eventId .. => .eventId | .partitionKey .. => .partitionKey | .expectedVersion .. => .expectedVersion
  | .timestamp .. => .timestamp | .payload .. => .payload | .metadata .. => .metadata

def AppendClause.WF : AppendClause → Prop
  | .eventId k u => wfKw KW.eventId k ∧ wfUuid u
  | .partitionKey k u => wfKw KW.partitionKey k ∧ wfUuid u
  | .expectedVersion k v => wfKw KW.expectedVersion k ∧ (expectedOf v).isSome = true
  | .timestamp k n => wfKw KW.timestamp k ∧ wfU64 n
  | .payload k _ => wfKw KW.payload k
  | .metadata k _ => wfKw KW.metadata k

/-- an event: stream id, free-form name, each optional clause at most once (any order);
`pkAllowed`: EAPPEND has a PARTITION_KEY clause, an EMAPPEND event has not -/
def EventDoc.WF (pkAllowed : Bool) (e : EventDoc) : Prop :=
  wfStream e.stream ∧ (∀ c ∈ e.clauses, c.WF) ∧ (e.clauses.map (·.kind)).Nodup ∧
    (pkAllowed = false → ClauseKind.partitionKey ∉ e.clauses.map (·.kind))

def ScanClause.kind : ScanClause → ClauseKind
  | .partitionKey .. => .partitionKey | .count .. => .count

def ScanClause.WF : ScanClause → Prop
  | .partitionKey k u => wfKw KW.partitionKey k ∧ wfUuid u
  | .count k n => wfKw KW.count k ∧ wfU64 n

def wfRange (cs : List Char) : Prop := (rangeOf cs).isSome = true
def wfPSel (cs : List Char) : Prop := (pselOf cs).isSome = true

def DocCmd.WF : DocCmd → Prop
  | .esub sels f w => sels ≠ [] ∧ (∀ s ∈ sels, s.WF) ∧ (∀ x, f = some x → x.WF) ∧ (∀ c, w = some c → c.WFWindow)
  | .epsub sel f w => sel.WF ∧ (∀ x, f = some x → x.WF) ∧ (∀ c, w = some c → c.WFWindow)
  | .eappend ev => ev.WF true
  | .emappend pk evs => wfUuid pk ∧ evs ≠ [] ∧ ∀ e ∈ evs, e.WF false
  | .escan s a b cl => wfStream s ∧ wfRange a ∧ wfRange b ∧ (∀ c ∈ cl, c.WF) ∧ (cl.map (·.kind)).Nodup
  | .epscan p a b c => wfPSel p ∧ wfRange a ∧ wfRange b ∧ ∀ x, c = some x → x.WF KW.count
  | .eget id => wfUuid id
  | .esver s pk => wfStream s ∧ ∀ p, pk = some p → p.WF
  | .epseq p => wfPSel p
  | .eack id n => wfUuid id ∧ wfU64 n

/-! ### rendering -/

def PkClause.render (p : PkClause) : List Tok := [.text p.kw, .text p.uuid]
def NumClause.render (c : NumClause) : List Tok := [.text c.kw, .text c.num]
def renderOpt {α : Type} (r : α → List Tok) : Option α → List Tok
  | none => []
  | some x => r x

def StreamSel.render (s : StreamSel) : List Tok := .text s.id :: renderOpt PkClause.render s.pk

def EsubFrom.render : EsubFrom → List Tok
  | .latest kf kl => [.text kf, .text kl]
  | .version kf n => [.text kf, .text n]
  | .map kf km es => .text kf :: .text km :: es.map .text

def EpsubSel.lex : EpsubSel → List Char
  | .all l => l | .one l => l | .list l => l

def EpsubFrom.render : EpsubFrom → List Tok
  | .latest kf kl => [.text kf, .text kl]
  | .seq kf n => [.text kf, .text n]
  | .map kf km es d => .text kf :: .text km :: (es.map .text ++ renderOpt NumClause.render d)

def AppendClause.render : AppendClause → List Tok
  | .eventId k u => [.text k, .text u]
  | .partitionKey k u => [.text k, .text u]
  | .expectedVersion k v => [.text k, .text v]
  | .timestamp k n => [.text k, .text n]
  | .payload k d => [.text k, d]
  | .metadata k d => [.text k, d]

def renderAll {α : Type} (r : α → List Tok) : List α → List Tok
  | [] => []
  | x :: xs => r x ++ renderAll r xs

def EventDoc.render (e : EventDoc) : List Tok :=
  .text e.stream :: .text e.name :: renderAll AppendClause.render e.clauses

def ScanClause.render : ScanClause → List Tok
  | .partitionKey k u => [.text k, .text u]
  | .count k n => [.text k, .text n]

/-- the argument frames of the command (after the command name) -/
def DocCmd.render : DocCmd → List Tok
  | .esub sels f w => renderAll StreamSel.render sels ++ (renderOpt EsubFrom.render f ++ renderOpt NumClause.render w)
  | .epsub sel f w => .text sel.lex :: (renderOpt EpsubFrom.render f ++ renderOpt NumClause.render w)
  | .eappend ev => ev.render
  | .emappend pk evs => .text pk :: renderAll EventDoc.render evs
  | .escan s a b cl => .text s :: .text a :: .text b :: renderAll ScanClause.render cl
  | .epscan p a b c => .text p :: .text a :: .text b :: renderOpt NumClause.render c
  | .eget id => [.text id]
  | .esver s pk => .text s :: renderOpt PkClause.render pk
  | .epseq p => [.text p]
  | .eack id n => [.text id, .text n]

/-! ### denotation -/

def numOf (cs : List Char) : Nat := (parseU64 cs).getD 0
def uuidVal (cs : List Char) : Nat := (uuidOf cs).getD 0

/-- the `(stream, version)` of a `<stream>=<version>` lexeme -/
def entryVal (e : List Char) : List Char × Nat := ((splitOnce '=' e).bind streamVersionOf).getD ([], 0)
/-- the `(partition, sequence)` of a `<partition>=<sequence>` lexeme -/
def pidSeqVal (e : List Char) : Nat × Nat := (parsePidSeq e).getD (0, 0)

def StreamSel.denote (s : StreamSel) : List Char × Option Nat := (s.id, s.pk.map (fun p => uuidVal p.uuid))

def EsubFrom.denote : EsubFrom → EsubFromV
  | .latest _ _ => .latest
  | .version _ n => .all (numOf n)
  | .map _ _ es => .map (es.map entryVal)

def EpsubSel.denote : EpsubSel → EpsubSelV
  | .all _ => .all
  | .one l => .one ((parseU16 l).getD 0)
  | .list l => .many ((parsePidList l).getD [])

def EpsubFrom.denote : EpsubFrom → FromSeqs
  | .latest _ _ => .latest
  | .seq _ n => .all (numOf n)
  | .map _ _ es d => .partitions (canonMap natLt (es.map pidSeqVal)) (d.map (fun c => numOf c.num))

def AppendClause.denote : AppendClause → ClauseVal
  | .eventId _ u => .eventId (uuidVal u)
  | .partitionKey _ u => .partitionKey (uuidVal u)
  | .expectedVersion _ v => .expectedVersion ((expectedOf v).getD .any)
  | .timestamp _ n => .timestamp (numOf n)
  | .payload _ d => .payload d
  | .metadata _ d => .metadata d

/-- the default request with every given clause applied -/
def EventDoc.denote (e : EventDoc) : AppendEv :=
  ((foldClauses {} (e.clauses.map AppendClause.denote)).getD {}).finish e.stream e.name

def ScanClause.denote : ScanClause → ScanVal
  | .partitionKey _ u => .partitionKey (uuidVal u)
  | .count _ n => .count (numOf n)

def rangeVal (cs : List Char) : RangeV := (rangeOf cs).getD .start
def pselVal (cs : List Char) : PSel := (pselOf cs).getD (.byId 0)

/-- the request a documented form denotes -/
def DocCmd.denote : DocCmd → Request
  | .esub sels f w =>
    buildEsub (sels.map StreamSel.denote) (f.map EsubFrom.denote) (w.map (fun c => numOf c.num))
  | .epsub sel f w => buildEpsub sel.denote (f.map EpsubFrom.denote) (w.map (fun c => numOf c.num))
  | .eappend ev => .eappend ev.denote
  | .emappend pk evs => .emappend (uuidVal pk) (evs.map EventDoc.denote)
  | .escan s a b cl =>
    let r := (foldScan none none (cl.map ScanClause.denote)).getD (none, none)
    .escan s (rangeVal a) (rangeVal b) r.1 r.2
  | .epscan p a b c => .epscan (pselVal p) (rangeVal a) (rangeVal b) (c.map (fun x => numOf x.num))
  | .eget id => .eget (uuidVal id)
  | .esver s pk => .esver s (pk.map (fun p => uuidVal p.uuid))
  | .epseq p => .epseq (pselVal p)
  | .eack id n => .eack (uuidVal id) (numOf n)

end SierraModel.Server
