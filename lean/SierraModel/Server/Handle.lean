/-
C22 — the request handlers of a single node (crates/sierradb-server/src/request/*.rs `handle_request`,
crates/sierradb-cluster/src/read.rs local read paths), replication factor 1, over the event-store
specification `Store.Spec`.

What a handler does around the store call is transcribed: strict-versioning check, partition key /
partition id derivation, millisecond → nanosecond timestamp conversion (`checked_mul`), event-id
validation of `Transaction::new`, the error-code mapping, the EAPPEND / EMAPPEND response
construction (`stream_versions.next().unwrap()`, the reverse per-event version reconstruction with
`get_mut(..).unwrap()` and the decrement), the read loops with `count` / range / `has_more`, and
`encode_event`.  The store call itself (`Database::append_events`, iterators) is the specification
`Spec.append` / the committed events in order (tied to the real `Database` by C02/C03's family).

rf = 1: every accepted write is confirmed before the reply, the watermark of a partition equals its
next sequence.  u64 values supplied by the client are checked (`none`/`trap` = the connection task
dies); sequences and versions assigned by the store are unbounded `Nat` (side condition `< 2^63`).

Inputs (not modelled, supplied per request): uuid v5 of the stream id, the ids / clock / transaction
id the server generated.  A stream is identified inside the one global `Spec` by
`streamKey bucket id` (buckets are independent stores; the encoding is injective).
-/
import SierraModel.Server.Parse
import SierraModel.Store.Spec

namespace SierraModel.Server
open SierraModel.Store
open SierraModel.Version (Expected Current storeAccepts U64_MAX)

structure Cfg where
  numPartitions : Nat
  numBuckets : Nat
  deriving Repr

/-- `uuid_to_partition_hash`: bits 46..61 -/
def uuidHash (u : Nat) : Nat := (u / 2 ^ 46) % 65536

/-- injective encoding of a stream id (digits `1 ..= 0x110000` in base `0x110001`) -/
def encChars : List Char → Nat
  | [] => 0
  | c :: cs => (c.toNat + 1) + 1114113 * encChars cs

/-- the identity of a stream in the global specification: (bucket, stream id) -/
def streamKey (bucket : Nat) (cs : List Char) : Nat := encChars cs * 65536 + bucket % 65536

/-- `u16 % u16`: division by zero panics -/
def modChk (a n : Nat) : Option Nat := if n = 0 then none else some (a % n)

inductive ErrCode where
  | invalidArg    -- INVALIDARG (also: unknown command, argument vector outside the grammar)
  | wrongVer      -- WRONGVER
  | dbOpFailed    -- DBOPFAILED
  | clusterDown   -- CLUSTERDOWN
  | notFound      -- NOTFOUND
  deriving DecidableEq, Repr

/-- the fields of an event record that the store model does not carry -/
structure Extra where
  stream : List Char
  name : List Char
  tsMs : Nat              -- nanosecond timestamp / 1_000_000 (what `encode_event` reports)
  metadata : Tok
  payload : Tok
  deriving DecidableEq, Repr

structure SEv where
  ev : Ev
  x : Extra
  deriving DecidableEq, Repr

/-- committed transactions of the node, oldest first (all buckets) -/
structure ServerState where
  txs : List (List SEv) := []
  /-- subscription ids of the (one) connection that issues subscription commands -/
  subs : List Nat := []
  deriving DecidableEq, Repr

def ServerState.abs (s : ServerState) : Spec := { txs := s.txs.map (fun t => t.map (·.ev)) }
def ServerState.events (s : ServerState) : List SEv := s.txs.flatten

/-- reply frames (`From<…Resp> for BytesFrame`, `encode_event`) -/
inductive Response where
  | trap                                  -- the connection task panicked: no reply, connection dead
  | err (c : ErrCode)
  | null
  | num (n : Nat)
  | appended (eid pkey pid seq version tsMs : Nat)
  | mappended (pkey pid first last : Nat) (events : List (Nat × List Char × Nat × Nat))
  | event (e : SEv)
  | events (hasMore : Bool) (es : List SEv)
  | subscribed (id : Nat)                 -- ESUB / EPSUB: the subscription id (then a `subscribe` push)
  | ok                                    -- EACK
  deriving DecidableEq, Repr

/-- per-request facts supplied by the harness -/
structure Inputs where
  strict : Bool := false    -- `strict_versioning` of the listener the connection belongs to
  derivedKey : Nat := 0     -- `Uuid::new_v5(NAMESPACE_PARTITION_KEY, stream_id)`
  genIds : List Nat := []   -- event ids the server generated (events without EVENT_ID), in order
  nowMs : Nat := 0          -- the server's clock reading, in ms
  txId : Nat := 0           -- the transaction id `Transaction::new` generated
  subId : Nat := 0          -- the subscription id the server generated
  deriving Repr

def strictAllowed : Expected → Bool
  | .any => false
  | .exists_ => false
  | _ => true

/-- `timestamp.checked_mul(1_000_000)`: (reported ms, fits the record header's 63 bits) -/
def convTs (ts : Option Nat) (nowMs : Nat) : Option (Nat × Bool) :=
  match ts with
  | none => some (nowMs, true)
  | some t => if t * 1000000 ≤ U64_MAX then some (t * 1000000 / 1000000, decide (t * 1000000 < 2 ^ 63)) else none

def mapErr : Store.Err → ErrCode
  | .wrongVersion => .wrongVer
  | _ => .dbOpFailed

/-! ## appends -/

/-- an event of an append request after id / timestamp resolution -/
structure Prep where
  eid : Nat
  stream : List Char
  name : List Char
  expected : Expected
  tsMs : Nat
  tsOk : Bool
  metadata : Tok
  payload : Tok
  deriving DecidableEq, Repr

/-- the `.map(|event| …).collect::<Result<_, String>>()` of the handlers: event id (given or
generated, the generated ones consumed in order) and timestamp; `none`: a `checked_mul` overflowed -/
def prepEvents (nowMs : Nat) : List AppendEv → List Nat → Option (List Prep)
  | [], _ => some []
  | e :: es, gen =>
    let eid := match e.eventId with | some id => id | none => gen.headD 0
    let gen' := match e.eventId with | some _ => gen | none => gen.tail
    match convTs e.timestamp nowMs with
    | none => none
    | some (ms, ok) =>
      (prepEvents nowMs es gen').map
        ({ eid := eid, stream := e.stream, name := e.name, expected := e.expected, tsMs := ms, tsOk := ok,
           metadata := e.metadata, payload := e.payload } :: ·)

def Prep.extra (p : Prep) : Extra :=
  { stream := p.stream, name := p.name, tsMs := p.tsMs, metadata := p.metadata, payload := p.payload }

def Prep.newEv (bucket : Nat) (p : Prep) : NewEv :=
  { eid := p.eid, stream := streamKey bucket p.stream, expected := p.expected, tsOk := p.tsOk, estimate := 0, stored := 0 }

/-- `Transaction::new(partition_key, partition_id, events)` (expected partition sequence `Any`) -/
def mkTx (cfg : Cfg) (pkey pid txId : Nat) (ps : List Prep) : Tx :=
  { pkey := pkey, pid := pid, txId := txId, expectedSeq := .any, events := ps.map (Prep.newEv (pid % cfg.numBuckets)) }

def pairUp (evs : List Ev) (xs : List Extra) : List SEv := (evs.zip xs).map (fun p => { ev := p.1, x := p.2 })

/-- `ExecuteTransaction` on the single node: the store's verdict; on success the new state, the
events as committed, first and last partition sequence -/
def commit (st : ServerState) (tx : Tx) (xs : List Extra) : Except Store.Err (ServerState × List Ev × Nat × Nat) :=
  match st.abs.append tx with
  | .error e => .error e
  | .ok (spec', first, last) =>
    let evs := spec'.txs.getLast?.getD []
    .ok ({ st with txs := st.txs ++ [pairUp evs xs] }, evs, first, last)

/-- `AppendResult::stream_versions`: stream ↦ version of its last event in the transaction -/
def streamVersions (evs : List Ev) : List (Nat × Nat) :=
  evs.foldl (fun vs e => setVersion vs e.stream e.version) []

def lookupV (m : List (Nat × Nat)) (k : Nat) : Option Nat := (m.find? (·.1 == k)).map (·.2)

/-- the closure of EMAPPEND's `.into_iter().rev().map(..)`: events last to first; `none` =
`get_mut(&stream_id).unwrap()` on a missing stream; the decrement is `saturating_sub(1)` -/
def reconRev : List Nat → List (Nat × Nat) → Option (List Nat)
  | [], _ => some []
  | k :: ks, m =>
    match lookupV m k with
    | none => none
    | some v => (reconRev ks (setVersion m k (v - 1))).map (v :: ·)

/-- per-event stream versions of the EMAPPEND reply (`events.reverse()` at the end) -/
def reconstruct (evs : List Ev) : Option (List Nat) :=
  (reconRev (evs.map (·.stream)).reverse (streamVersions evs)).map List.reverse

def handleEAppend (cfg : Cfg) (st : ServerState) (inp : Inputs) (e : AppendEv) : ServerState × Response :=
  if inp.strict && !strictAllowed e.expected then (st, .err .invalidArg)
  else
    let pkey := e.partitionKey.getD inp.derivedKey
    let hash := uuidHash pkey
    match modChk hash cfg.numPartitions with
    | none => (st, .trap)
    | some pid =>
      match prepEvents inp.nowMs [e] inp.genIds with
      | none => (st, .err .invalidArg)
      | some ps =>
        if ps.any (fun p => uuidHash p.eid != hash) then (st, .err .invalidArg)
        else
          match commit st (mkTx cfg pkey pid inp.txId ps) (ps.map Prep.extra) with
          | .error err => (st, .err (mapErr err))
          | .ok (st', evs, first, _) =>
            match (streamVersions evs).head?, ps.head? with
            | some (_, v), some p => (st', .appended p.eid pkey pid first v p.tsMs)
            | _, _ => (st', .trap)       -- `stream_versions.next().unwrap()`

def handleEMAppend (cfg : Cfg) (st : ServerState) (inp : Inputs) (pkey : Nat) (es : List AppendEv) : ServerState × Response :=
  if inp.strict && es.any (fun e => !strictAllowed e.expected) then (st, .err .invalidArg)
  else
    let hash := uuidHash pkey
    match modChk hash cfg.numPartitions with
    | none => (st, .trap)
    | some pid =>
      match prepEvents inp.nowMs es inp.genIds with
      | none => (st, .err .invalidArg)
      | some ps =>
        if ps.isEmpty || ps.any (fun p => uuidHash p.eid != hash) then (st, .err .invalidArg)
        else
          match commit st (mkTx cfg pkey pid inp.txId ps) (ps.map Prep.extra) with
          | .error err => (st, .err (mapErr err))
          | .ok (st', evs, first, last) =>
            match reconstruct evs with
            | none => (st', .trap)
            | some vs =>
              (st', .mappended pkey pid first last
                ((ps.zip vs).map (fun pv => (pv.1.eid, pv.1.stream, pv.2, pv.1.tsMs))))

/-! ## reads (rf = 1: the watermark of a partition is its next sequence) -/

def ServerState.watermark (st : ServerState) (pid : Nat) : Nat := st.abs.nextSeq pid

/-- `PartitionSelector::into_partition_id` -/
def selPid (cfg : Cfg) : PSel → Option Nat
  | .byId n => some n
  | .byKey u => modChk (uuidHash u) cfg.numPartitions

/-- EPSEQ: `watermark.checked_sub(1)`; a partition this node does not own has no replica -/
def handleEPSeq (cfg : Cfg) (st : ServerState) (sel : PSel) : Response :=
  match selPid cfg sel with
  | none => .trap
  | some pid =>
    if pid < cfg.numPartitions then
      (if st.watermark pid = 0 then .null else .num (st.watermark pid - 1))
    else .err .clusterDown

/-- the events of a partition from `start` on, as the partition iterator yields them -/
def partitionFrom (st : ServerState) (pid start : Nat) : List SEv :=
  st.events.filter (fun e => e.ev.pid == pid && decide (start ≤ e.ev.seq))

/-- first bound of a range: `+` is not a start -/
def rangeStart : RangeV → Option Nat
  | .stop => none
  | .start => some 0
  | .value n => some n

/-- second bound of a range: `-` is not an end; `+` is open -/
def rangeEnd : RangeV → Option (Option Nat)
  | .start => none
  | .stop => some none
  | .value n => some (some n)

/-- `effective_end_sequence`: the requested end, capped by the watermark -/
def effEnd (endSeq : Option Nat) (w : Nat) : Nat :=
  match endSeq with
  | some e => Nat.min e w
  | none => w

/-- the loop goes on while `seq ≤ effective_end` and `seq < watermark` -/
def inPartRange (endSeq : Option Nat) (w : Nat) (e : SEv) : Bool :=
  decide (e.ev.seq ≤ effEnd endSeq w) && decide (e.ev.seq < w)

/-- `handle_partition_read_locally` (the batch limit `(end - next).clamp(1, 50)` never stops the loop early:
batches only cut the event list) -/
def scanPartition (st : ServerState) (pid start : Nat) (endSeq : Option Nat) (count : Nat) : Response :=
  let w := st.watermark pid
  if start > w then .events false []
  else
    let out := ((partitionFrom st pid start).takeWhile (fun e => inPartRange endSeq w e)).take count
    let lastRead := match out.getLast? with | some e => e.ev.seq + 1 | none => start
    .events (decide (1 ≤ w ∧ lastRead ≤ w - 1)) out

/-- EPSCAN -/
def handleEPScan (cfg : Cfg) (st : ServerState) (sel : PSel) (lo hi : RangeV) (count : Option Nat) : Response :=
  match rangeStart lo, rangeEnd hi with
  | none, _ => .err .invalidArg
  | _, none => .err .invalidArg
  | some start, some endSeq =>
    match selPid cfg sel with
    | none => .trap
    | some pid =>
      if pid < cfg.numPartitions then scanPartition st pid start endSeq (count.getD 100)
      else .err .clusterDown

/-- the commits a stream iterator yields from version `start` on: per transaction the events of
the stream (in the bucket of the requested partition) -/
def streamCommits (st : ServerState) (key start : Nat) : List (List SEv) :=
  st.txs.filterMap (fun t =>
    match t.filter (fun e => e.ev.stream == key && decide (start ≤ e.ev.version)) with
    | [] => none
    | l => some l)

inductive Ctl where
  | cont | breakIter
  deriving DecidableEq, Repr

/-- `end_version.is_some_and(|end| event.stream_version > end)` -/
def beyondEnd (endV : Option Nat) (e : SEv) : Bool :=
  match endV with
  | some v => decide (e.ev.version > v)
  | none => false

/-- `events.last().map(|e| e.stream_version).unwrap_or(0)` -/
def lastVer (acc : List SEv) : Nat :=
  match acc.getLast? with
  | some e => e.ev.version
  | none => 0

/-- `end_version.is_some_and(|end| last_version >= end)` -/
def reachedEnd (endV : Option Nat) (acc : List SEv) : Bool :=
  match endV with
  | some v => decide (lastVer acc ≥ v)
  | none => false

/-- the `for event in commit` loop of `handle_stream_read_locally` -/
def scanEvents (pid count w : Nat) (endV : Option Nat) : List SEv → List SEv → Bool → List SEv × Bool × Ctl
  | [], acc, hm => (acc, hm, .cont)
  | e :: es, acc, hm =>
    -- the stream index is per bucket: an event of another partition ends the scan
    if e.ev.pid != pid then (acc, hm, .breakIter)
    else if acc.length ≥ count then (acc, true, .breakIter)
    else if e.ev.seq ≥ w then (acc, hm, .breakIter)
    else if beyondEnd endV e then (acc, true, .cont)
    else scanEvents pid count w endV es (acc ++ [e]) hm

/-- the `for commit in commits` loop (batches only cut the commit list) -/
def scanCommits (pid count w : Nat) (endV : Option Nat) : List (List SEv) → List SEv → Bool → List SEv × Bool
  | [], acc, hm => (acc, hm)
  | c :: cs, acc, hm =>
    match scanEvents pid count w endV c acc hm with
    | (acc', hm', .breakIter) => (acc', hm')
    | (acc', hm', .cont) =>
      if acc'.length ≥ count then (acc', true)
      else if reachedEnd endV acc' then (acc', hm')
      else scanCommits pid count w endV cs acc' hm'

/-- `handle_stream_read_locally` -/
def scanStream (cfg : Cfg) (st : ServerState) (pid : Nat) (stream : List Char) (start : Nat) (endV : Option Nat)
    (count : Nat) : Response :=
  let r := scanCommits pid count (st.watermark pid) endV
             (streamCommits st (streamKey (pid % cfg.numBuckets) stream) start) [] false
  .events r.2 r.1

/-- ESCAN -/
def handleEScan (cfg : Cfg) (st : ServerState) (inp : Inputs) (stream : List Char) (lo hi : RangeV)
    (pk count : Option Nat) : Response :=
  match modChk (uuidHash (pk.getD inp.derivedKey)) cfg.numPartitions with
  | none => .trap
  | some pid =>
    match rangeStart lo, rangeEnd hi with
    | none, _ => .err .invalidArg
    | _, none => .err .invalidArg
    | some start, some endV => scanStream cfg st pid stream start endV (count.getD 100)

/-- ESVER: newest event of the stream below the watermark (`GetStreamVersion`) -/
def handleESVer (cfg : Cfg) (st : ServerState) (inp : Inputs) (stream : List Char) (pk : Option Nat) : Response :=
  match modChk (uuidHash (pk.getD inp.derivedKey)) cfg.numPartitions with
  | none => .trap
  | some pid =>
    let key := streamKey (pid % cfg.numBuckets) stream
    match st.events.reverse.find? (fun e => e.ev.stream == key && e.ev.pid == pid && decide (e.ev.seq < st.watermark pid)) with
    | some e => .num e.ev.version
    | none => .null

/-- EGET: `ReadEvent` routed by the hash embedded in the id, then the watermark check -/
def handleEGet (cfg : Cfg) (st : ServerState) (id : Nat) : Response :=
  match modChk (uuidHash id) cfg.numPartitions with
  | none => .trap
  | some pid =>
    match st.events.find? (fun e => e.ev.eid == id && e.ev.pid % cfg.numBuckets == pid % cfg.numBuckets) with
    | some e => if e.ev.seq + 1 > st.watermark pid then .null else .event e
    | none => .null

/-! ## dispatch -/

/-- one request on a connection.  Subscriptions: only the immediate reply is modelled (the
subscription id; `Subscribe` cannot fail), deliveries are C09. -/
def handle (cfg : Cfg) (st : ServerState) (inp : Inputs) : Request → ServerState × Response
  | .eappend e => handleEAppend cfg st inp e
  | .emappend pk es => handleEMAppend cfg st inp pk es
  | .eget id => (st, handleEGet cfg st id)
  | .escan s lo hi pk c => (st, handleEScan cfg st inp s lo hi pk c)
  | .epscan p lo hi c => (st, handleEPScan cfg st p lo hi c)
  | .esver s pk => (st, handleESVer cfg st inp s pk)
  | .epseq p => (st, handleEPSeq cfg st p)
  | .eack id _ => (st, if st.subs.contains id then .ok else .err .notFound)
  | _ => ({ st with subs := inp.subId :: st.subs }, .subscribed inp.subId)

/-- a command history: requests with their inputs, from a given state -/
def run (cfg : Cfg) : ServerState → List (Inputs × Request) → ServerState × List Response
  | st, [] => (st, [])
  | st, (inp, r) :: rest =>
    let (st', resp) := handle cfg st inp r
    let (st'', resps) := run cfg st' rest
    (st'', resp :: resps)

end SierraModel.Server
