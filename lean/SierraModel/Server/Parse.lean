/-
C21 — the server's command parsers (crates/sierradb-server/src/parser.rs, src/request/*.rs),
transcribed combinator by combinator with `combine`'s committed-choice semantics.

A `combine` parser returns one of four results: `CommitOk` / `PeekOk` (success, having / not having
consumed input), `CommitErr` (failure after consuming input: the enclosing `choice` / `optional` /
`many` fails too) and `PeekErr` (failure without consuming: the enclosing combinator resets the input
and tries its alternative).  `Res.ok v rest committed`, `Res.cerr`, `Res.perr` are exactly these.
The error *texts* (`.expected(..)`, `.message(..)`) never influence control flow and are not modelled;
the observation is `parser().skip(eof())`: a request or an error.
-/
import SierraModel.Server.Grammar

namespace SierraModel.Server
open SierraModel.Version (parseU64 Expected)

inductive Res (α : Type) where
  | ok (v : α) (rest : List Tok) (committed : Bool)
  | perr
  | cerr
  deriving Repr

abbrev P (α : Type) := List Tok → Res α

/-! ## the combinators -/

/-- `satisfy_map(f)`: consumes one frame iff `f` accepts it -/
def satisfyMap {α : Type} (f : Tok → Option α) : P α
  | [] => .perr
  | t :: ts => match f t with
    | some v => .ok v ts true
    | none => .perr

/-- `p.map(f)` -/
def pmap {α β : Type} (p : P α) (f : α → β) : P β := fun ts =>
  match p ts with
  | .ok v r c => .ok (f v) r c
  | .perr => .perr
  | .cerr => .cerr

/-- `p.and_then(f)`: `f` failing after `p` consumed input is a *committed* error -/
def andThen {α β : Type} (p : P α) (f : α → Option β) : P β := fun ts =>
  match p ts with
  | .ok v r c => match f v with
    | some w => .ok w r c
    | none => if c then .cerr else .perr
  | .perr => .perr
  | .cerr => .cerr

/-- `(p, q)` -/
def seq {α β : Type} (p : P α) (q : P β) : P (α × β) := fun ts =>
  match p ts with
  | .ok a r c => match q r with
    | .ok b r' c' => .ok (a, b) r' (c || c')
    | .perr => if c then .cerr else .perr
    | .cerr => .cerr
  | .perr => .perr
  | .cerr => .cerr

/-- `p.with(q)` -/
def withP {α β : Type} (p : P α) (q : P β) : P β := pmap (seq p q) (·.2)
/-- `p.skip(q)` -/
def skipP {α β : Type} (p : P α) (q : P β) : P α := pmap (seq p q) (·.1)

/-- `attempt(p)` -/
def attempt {α : Type} (p : P α) : P α := fun ts =>
  match p ts with
  | .cerr => .perr
  | r => r

/-- `p.or(q)` / `choice((p, q))` / `choice!(p, q)` -/
def orElse {α : Type} (p q : P α) : P α := fun ts =>
  match p ts with
  | .perr => q ts
  | r => r

/-- `optional(p)` -/
def optional {α : Type} (p : P α) : P (Option α) := fun ts =>
  match p ts with
  | .ok v r c => .ok (some v) r c
  | .perr => .ok none ts false
  | .cerr => .cerr

/-- `many(p)` with fuel (every element parser below consumes at least one frame, so
`length + 1` iterations always suffice) -/
def manyFuel {α : Type} (p : P α) : Nat → P (List α)
  | 0 => fun ts => .ok [] ts false
  | n + 1 => fun ts =>
    match p ts with
    | .ok v r c => match manyFuel p n r with
      | .ok vs r' c' => .ok (v :: vs) r' (c || c')
      | .perr => .perr
      | .cerr => .cerr
    | .perr => .ok [] ts false
    | .cerr => .cerr

def many {α : Type} (p : P α) : P (List α) := fun ts => manyFuel p (ts.length + 1) ts

/-- `many1(p)` -/
def many1 {α : Type} (p : P α) : P (List α) := fun ts =>
  match p ts with
  | .ok v r c => match many p r with
    | .ok vs r' c' => .ok (v :: vs) r' (c || c')
    | .perr => if c then .cerr else .perr
    | .cerr => .cerr
  | .perr => .perr
  | .cerr => .cerr

/-- `eof()` -/
def eof : P Unit
  | [] => .ok () [] false
  | _ :: _ => .perr

/-! ## parser.rs -/

/-- `satisfy_map` on the string frames: `str::from_utf8(data).ok().and_then(f)` -/
def textMap {α : Type} (f : List Char → Option α) : P α :=
  satisfyMap (fun t => match t with | .text cs => f cs | .blob _ => none)

/-- `string()` -/
def str : P (List Char) := textMap some
/-- `data()` -/
def dataTok : P Tok := satisfyMap some
/-- `keyword(kw)` -/
def kw (K : List Char) : P Unit := satisfyMap (fun t => if isKw K t then some () else none)
/-- `number_u64()` -/
def numberU64 : P Nat := textMap parseU64
/-- `number_u64_min(min)` -/
def numberU64Min (m : Nat) : P Nat := andThen numberU64 (fun n => if n < m then none else some n)
/-- `partition_id()` -/
def partitionId : P Nat := textMap parseU16
/-- `event_id()` / `partition_key()` / `subscription_id()` -/
def uuidP : P Nat := andThen str uuidOf
/-- `stream_id()`: a frame that is a reserved keyword is not a stream id (no input consumed);
any other string must satisfy `StreamId::new` -/
def streamId : P (List Char) :=
  andThen (textMap (fun cs => if isReserved cs then none else some cs))
    (fun cs => if streamIdOk cs then some cs else none)
/-- `stream_id_version()`: a frame without `=` is not a map entry (no input consumed) -/
def streamIdVersion : P (List Char × Nat) :=
  andThen (textMap (splitOnce '=')) streamVersionOf
/-- `partition_id_sequence()` -/
def partitionIdSequence : P (Nat × Nat) := textMap parsePidSeq
/-- `partition_ids()` -/
def partitionIds : P (List Nat) := textMap parsePidList
/-- `expected_version()` -/
def expectedVersion : P Expected :=
  orElse (pmap numberU64 .exact)
    (orElse (pmap (kw KW.any) (fun _ => .any))
      (orElse (pmap (kw KW.exists_) (fun _ => .exists_)) (pmap (kw KW.empty) (fun _ => .empty))))
/-- `range_value()` -/
def rangeValue : P RangeV :=
  orElse (pmap (kw KW.minus) (fun _ => .start))
    (orElse (pmap (kw KW.plus) (fun _ => .stop)) (pmap numberU64 .value))
/-- `partition_selector()` -/
def partitionSelector : P PSel := orElse (attempt (pmap uuidP .byKey)) (pmap partitionId .byId)

/-! ## request/*.rs -/

def pkClause : P Nat := withP (kw KW.partitionKey) uuidP
/-- `window()` (esub.rs, epsub.rs) -/
def windowP : P Nat := withP (kw KW.window) (numberU64Min 1)

/-- esub.rs `Selector::parser` element -/
def esubSelItem : P (List Char × Option Nat) := seq streamId (optional pkClause)
/-- esub.rs `from_versions()` -/
def esubFrom : P EsubFromV :=
  withP (kw KW.from_)
    (orElse (pmap (kw KW.latest) (fun _ => .latest))
      (orElse (pmap numberU64 .all) (pmap (withP (kw KW.map) (many1 streamIdVersion)) .map)))
/-- `ESub::parser` -/
def esubP : P Request :=
  pmap (seq (many1 esubSelItem) (seq (optional esubFrom) (optional windowP)))
    (fun x => buildEsub x.1 x.2.1 x.2.2)

/-- epsub.rs `Selector::parser` -/
def epsubSel : P EpsubSelV :=
  orElse (pmap (kw KW.star) (fun _ => .all)) (orElse (pmap partitionId .one) (pmap partitionIds .many))
/-- epsub.rs `from_sequences()` -/
def epsubFrom : P FromSeqs :=
  withP (kw KW.from_)
    (orElse (pmap (kw KW.latest) (fun _ => .latest))
      (orElse (pmap numberU64 .all)
        (pmap (withP (kw KW.map) (seq (many1 partitionIdSequence) (optional (withP (kw KW.default_) numberU64))))
          (fun x => .partitions (canonMap natLt x.1) x.2))))
/-- `EPSub::parser` -/
def epsubP : P Request :=
  pmap (seq epsubSel (seq (optional epsubFrom) (optional windowP)))
    (fun x => buildEpsub x.1 x.2.1 x.2.2)

/-- eappend.rs / emappend.rs `OptionalArg::parser` (`pk`: EAPPEND has the PARTITION_KEY alternative) -/
def appendClause (pk : Bool) : P ClauseVal :=
  orElse (attempt (pmap (withP (kw KW.eventId) uuidP) .eventId))
    (orElse (if pk then attempt (pmap (withP (kw KW.partitionKey) uuidP) .partitionKey) else fun _ => .perr)
      (orElse (attempt (pmap (withP (kw KW.expectedVersion) expectedVersion) .expectedVersion))
        (orElse (attempt (pmap (withP (kw KW.timestamp) numberU64) .timestamp))
          (orElse (attempt (pmap (withP (kw KW.payload) dataTok) .payload))
            (attempt (pmap (withP (kw KW.metadata) dataTok) .metadata))))))

/-- `EAppend::parser` body / emappend.rs `Event::parser` -/
def eventP (pk : Bool) : P AppendEv :=
  andThen (seq streamId (seq str (many (appendClause pk)))) (fun x => buildEvent x.1 x.2.1 x.2.2)

def eappendP : P Request := pmap (eventP true) .eappend
/-- `EMAppend::parser` -/
def emappendP : P Request := pmap (seq uuidP (many1 (eventP false))) (fun x => .emappend x.1 x.2)

/-- escan.rs `OptionalArg::parser` -/
def scanClause : P ScanVal :=
  orElse (attempt (pmap (withP (kw KW.partitionKey) uuidP) .partitionKey))
    (attempt (pmap (withP (kw KW.count) numberU64) .count))
/-- `EScan::parser` -/
def escanP : P Request :=
  andThen (seq streamId (seq rangeValue (seq rangeValue (many scanClause))))
    (fun x => (foldScan none none x.2.2.2).map (fun r => .escan x.1 x.2.1 x.2.2.1 r.1 r.2))

/-- epscan.rs: `many(COUNT <n>)`, a second COUNT is "count already specified" -/
def epscanP : P Request :=
  andThen (seq partitionSelector (seq rangeValue (seq rangeValue (many (withP (kw KW.count) numberU64)))))
    (fun x => match x.2.2.2 with
      | [] => some (.epscan x.1 x.2.1 x.2.2.1 none)
      | [n] => some (.epscan x.1 x.2.1 x.2.2.1 (some n))
      | _ => none)

def egetP : P Request := pmap uuidP .eget
def esverP : P Request := pmap (seq streamId (optional pkClause)) (fun x => .esver x.1 x.2)
def epseqP : P Request := pmap partitionSelector .epseq
def eackP : P Request := pmap (seq uuidP numberU64) (fun x => .eack x.1 x.2)

def Cmd.parser : Cmd → P Request
  | .esub => esubP | .epsub => epsubP | .eappend => eappendP | .emappend => emappendP
  | .escan => escanP | .epscan => epscanP | .eget => egetP | .esver => esverP
  | .epseq => epseqP | .eack => eackP

inductive Err where
  | invalidArg
  deriving DecidableEq, Repr

/-- `<Command>::parser().skip(eof()).parse(frame_stream(args))` -/
def parse (c : Cmd) (ts : List Tok) : Except Err Request :=
  match skipP c.parser eof ts with
  | .ok r _ _ => .ok r
  | _ => .error .invalidArg

end SierraModel.Server
