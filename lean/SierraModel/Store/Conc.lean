/-
Concurrency model of one bucket (writer thread + clients + readers), at the granularity of the
atomic actions of the real code:

  * a client `send`s a request into the writer thread's mpsc queue (FIFO), later receives the reply
    and then polls `wait_for(synced ≥ write_offset)` on the watch channel of the segment the reply
    came from (`WriterThreadPool::append_events`);
  * the writer thread `process`es the queue head (`handle_append_events`, incl. a possible rollover,
    which since the F07 fix publishes the new live indexes and installs the sealed segment in the
    reader pool in ONE critical section) and handles `flushPoll` (`sync`);
  * a reader's lookup is two atomic steps: `lookupLive` (read lock on the live indexes: published
    entries + current segment id) and, on a miss, `lookupPool` (reader-pool task over the sealed
    segments).
Every schedule is a list of `Action`s; theorems quantify over all of them.
-/
import SierraModel.Store.Spec

namespace SierraModel.Store

/-- a client's view of an append in flight -/
inductive ClientState where
  | idle
  | sent (tx : Tx)
  | replied (res : Except Err AppendOk) (seg : Nat)     -- reply received; `seg` = segment of the watch receiver
  | acked (res : AppendOk)                               -- `wait_for` satisfied: success returned to the caller
  | failed (e : Err)
  deriving Repr

/-- a reader's two-phase event lookup -/
inductive ReaderState where
  | idle
  | missedLive (eid : Nat)                               -- live lookup done, nothing found; pool lookup pending
  | done (eid : Nat) (found : Bool)
  deriving Repr

structure Conc where
  b : Bucket
  queue : List (Nat × Tx)                                -- (client, request), FIFO
  clients : List (Nat × ClientState)
  readers : List (Nat × ReaderState)
  /-- final value of the sync watch channel of every sealed segment (set by the rollover's sync) -/
  sealedWatch : List (Nat × Nat)
  /-- ghost: transactions acknowledged to a client so far, in acknowledgement order -/
  ackedLog : List AppendOk
  /-- ghost: requests in the order the writer processed them, with their results -/
  processed : List (Tx × Except Err AppendOk)
  deriving Repr

inductive Action where
  | send (client : Nat) (tx : Tx)
  | process                                              -- writer handles the queue head
  | flushPoll                                            -- writer handles FlushPoll: sync
  | recvReply (client : Nat)
  | pollWait (client : Nat)
  | lookupLive (reader eid : Nat)
  | lookupPool (reader : Nat)
  deriving Repr

def setAssoc {α} (l : List (Nat × α)) (k : Nat) (v : α) : List (Nat × α) :=
  if l.any (·.1 == k) then l.map (fun x => if x.1 == k then (k, v) else x) else l ++ [(k, v)]
def getAssoc {α} (l : List (Nat × α)) (k : Nat) : Option α := (l.find? (·.1 == k)).map (·.2)

/-- value of the watch channel of segment `seg` -/
def Conc.watchOf (c : Conc) (seg : Nat) : Nat :=
  if seg == c.b.live.id then c.b.live.watch else (getAssoc c.sealedWatch seg).getD 0

def Conc.init (b : Bucket) : Conc :=
  { b := b, queue := [], clients := [], readers := [], sealedWatch := [], ackedLog := [], processed := [] }

/-- replies not yet picked up by their clients: (client, result, segment of the receiver) -/
structure Outbox where
  items : List (Nat × Except Err AppendOk × Nat) := []

/-- one atomic action; `none` = the action is not enabled in this state -/
def Conc.step (c : Conc) (outbox : Outbox) : Action → Option (Conc × Outbox)
  | .send client tx =>
    match getAssoc c.clients client with
    | some .idle | none => some ({ c with queue := c.queue ++ [(client, tx)], clients := setAssoc c.clients client (.sent tx) }, outbox)
    | _ => none
  | .process =>
    match c.queue with
    | [] => none
    | (client, tx) :: rest =>
      let before := c.b
      let (b', res) := c.b.appendTx tx
      -- a rollover inside appendTx seals the old live segment: its channel keeps its last value
      let sealedWatch := if b'.live.id != before.live.id then setAssoc c.sealedWatch before.live.id before.sync.live.watch else c.sealedWatch
      some ({ c with b := b', queue := rest, sealedWatch := sealedWatch, processed := c.processed ++ [(tx, res)] },
            { items := outbox.items ++ [(client, res, b'.live.id)] })
  | .flushPoll => some ({ c with b := c.b.sync }, outbox)
  | .recvReply client =>
    match outbox.items.find? (·.1 == client), getAssoc c.clients client with
    | some (_, res, seg), some (.sent _) =>
      some ({ c with clients := setAssoc c.clients client (match res with | .ok r => .replied (.ok r) seg | .error e => .failed e) },
            { items := outbox.items.filter (·.1 != client) })
    | _, _ => none
  | .pollWait client =>
    match getAssoc c.clients client with
    | some (.replied (.ok r) seg) =>
      if c.watchOf seg ≥ r.writeOff then
        some ({ c with clients := setAssoc c.clients client (.acked r), ackedLog := c.ackedLog ++ [r] }, outbox)
      else some (c, outbox)     -- still pending
    | _ => none
  | .lookupLive reader eid =>
    match c.b.live.index.find? (·.eid == eid) with
    | some _ => some ({ c with readers := setAssoc c.readers reader (.done eid true) }, outbox)
    | none => some ({ c with readers := setAssoc c.readers reader (.missedLive eid) }, outbox)
  | .lookupPool reader =>
    match getAssoc c.readers reader with
    | some (.missedLive eid) =>
      let found := c.b.sealed.any (fun s => s.index.any (·.eid == eid))
      some ({ c with readers := setAssoc c.readers reader (.done eid found) }, outbox)
    | _ => none

/-- run a schedule; disabled actions are skipped -/
def Conc.run (c : Conc) (o : Outbox) : List Action → Conc × Outbox
  | [] => (c, o)
  | a :: as =>
    match c.step o a with
    | some (c', o') => Conc.run c' o' as
    | none => Conc.run c o as

end SierraModel.Store
