/-
Model of one bucket of the sierradb store: `WriterSet` (crates/sierradb/src/writer_thread_pool.rs:
validate_event_versions, handle_append_events, handle_write, sync, rollover), the segment files as
lists of sized records, the open/closed indexes as the entry lists they encode, and the
acknowledgement protocol (sync watch).  Buckets are independent (one writer thread each), so the
database is a map bucket ↦ `Bucket`.

Not modelled (inputs / trusted): payload bytes (an event is identified by `eid`; content equality is
checked on the implementation side), zstd (stored sizes are inputs), MPHF/bloom files (an index is
the finite map it encodes), wall-clock (the eventual FlushPoll is an explicit `sync` step).
-/
import SierraModel.Store.Version

namespace SierraModel.Store
open SierraModel.Version

def SEGMENT_HEADER_SIZE : Nat := 48
def EVENT_HEADER_SIZE : Nat := 93
def COMMIT_SIZE : Nat := 37

/-- an event as stored in a segment -/
structure Ev where
  eid : Nat
  pkey : Nat
  pid : Nat
  seq : Nat
  stream : Nat
  version : Nat
  tx : Nat
  single : Bool      -- transaction-id flag: single-event transaction
  deriving DecidableEq, Repr

inductive Rec where
  | ev (e : Ev)
  | commit (tx : Nat) (count : Nat)
  deriving DecidableEq, Repr

/-- a record placed in a segment file -/
structure Placed where
  off : Nat
  size : Nat
  r : Rec
  deriving DecidableEq, Repr

/-- index entry of one event (what the event / partition / stream indexes store about it) -/
structure Entry where
  eid : Nat
  pkey : Nat
  pid : Nat
  seq : Nat
  stream : Nat
  version : Nat
  off : Nat
  deriving DecidableEq, Repr

structure Sealed where
  id : Nat
  recs : List Placed
  index : List Entry          -- closed indexes (complete)
  deriving Repr

structure Live where
  id : Nat
  recs : List Placed          -- OS-visible records (handle_write ends with flush_writer)
  writeOff : Nat
  durable : Nat               -- fsynced length (= flushed offset)
  index : List Entry          -- published live index
  pending : List Entry        -- pending_indexes
  watch : Nat                 -- value of this segment's sync watch channel
  deriving Repr

structure Bucket where
  segSize : Nat
  compression : Bool
  sealed : List Sealed        -- oldest first
  live : Live
  nextSeq : List (Nat × Nat)  -- next_partition_sequences
  deriving Repr

def Bucket.new (segSize : Nat) (compression : Bool) : Bucket :=
  { segSize := segSize, compression := compression, sealed := [],
    live := { id := 0, recs := [], writeOff := SEGMENT_HEADER_SIZE, durable := SEGMENT_HEADER_SIZE,
              index := [], pending := [], watch := SEGMENT_HEADER_SIZE },
    nextSeq := [] }

/-! ### index lookups (writer side: pending, live, then sealed newest → oldest) -/

def lastWhere (l : List Entry) (p : Entry → Bool) : Option Entry := (l.reverse.find? p)

/-- latest (pkey, version) of a stream as `validate_event_versions` finds it -/
def Bucket.streamLatestW (b : Bucket) (stream : Nat) : Option (Nat × Nat) :=
  match lastWhere b.live.pending (·.stream == stream) with
  | some e => some (e.pkey, e.version)
  | none =>
    match lastWhere b.live.index (·.stream == stream) with
    | some e => some (e.pkey, e.version)
    | none => (b.sealed.reverse.findSome? (fun s => lastWhere s.index (·.stream == stream))).map (fun e => (e.pkey, e.version))

/-- `next_partition_sequence` -/
def Bucket.nextPartSeq (b : Bucket) (pid : Nat) : Nat :=
  match b.nextSeq.find? (·.1 == pid) with
  | some (_, n) => n
  | none =>
    match lastWhere b.live.index (·.pid == pid) with
    | some e => e.seq + 1
    | none =>
      match b.sealed.reverse.findSome? (fun s => lastWhere s.index (·.pid == pid)) with
      | some e => e.seq + 1
      | none => 0

/-! ### appends -/

structure NewEv where
  eid : Nat
  stream : Nat
  expected : Expected
  tsOk : Bool        -- timestamp < 2^63
  estimate : Nat     -- EVENT_HEADER_SIZE + |stream id| + |name| + |metadata| + |payload|
  stored : Nat       -- stored record size (input: depends on zstd)
  deriving Repr

structure Tx where
  pkey : Nat
  pid : Nat
  txId : Nat
  expectedSeq : Expected
  events : List NewEv
  deriving Repr

inductive Err where
  | wrongVersion | keyMismatch | wrongSeq | tooLarge | badTimestamp | full
  deriving DecidableEq, Repr

/-- `validate_event_versions`: per event the current version it sees (`none` = stream empty) -/
def validateVersions (b : Bucket) (pkey : Nat) : List NewEv → List (Nat × Nat) → Except Err (List (Option Nat))
  | [], _ => .ok []
  | e :: es, seen =>   -- seen: stream ↦ latest version so far inside this transaction
    match seen.find? (·.1 == e.stream) with
    | some (_, latest) =>
      -- Occupied entry
      match e.expected with
      | .empty => .error .wrongVersion
      | .exact v => if latest != v then .error .wrongVersion
                    else (validateVersions b pkey es ((e.stream, latest + 1) :: seen.filter (·.1 != e.stream))).map (some latest :: ·)
      | _ => (validateVersions b pkey es ((e.stream, latest + 1) :: seen.filter (·.1 != e.stream))).map (some latest :: ·)
    | none =>
      -- Vacant entry: look the stream up
      match b.streamLatestW e.stream with
      | some (existingKey, version) =>
        if existingKey != pkey then .error .keyMismatch
        else match e.expected with
          | .empty => .error .wrongVersion
          | .exact v => if version != v then .error .wrongVersion
                        else (validateVersions b pkey es ((e.stream, version + 1) :: seen)).map (some version :: ·)
          | _ => (validateVersions b pkey es ((e.stream, version + 1) :: seen)).map (some version :: ·)
      | none =>
        match e.expected with
        | .exists_ => .error .wrongVersion
        | .exact _ => .error .wrongVersion
        | _ => (validateVersions b pkey es ((e.stream, 0) :: seen)).map (none :: ·)

def entryOf (e : Ev) (off : Nat) : Entry :=
  { eid := e.eid, pkey := e.pkey, pid := e.pid, seq := e.seq, stream := e.stream, version := e.version, off := off }

/-- `WriterSet::sync`: fsync, publish pending index entries, then the synced offset -/
def Bucket.sync (b : Bucket) : Bucket :=
  { b with live := { b.live with durable := b.live.writeOff, index := b.live.index ++ b.live.pending,
                                 pending := [], watch := b.live.writeOff } }

/-- `WriterSet::rollover` (after the fixes: fresh watch channel per segment) -/
def Bucket.rollover (b : Bucket) : Bucket :=
  let b1 := b.sync
  { b1 with sealed := b1.sealed ++ [{ id := b1.live.id, recs := b1.live.recs, index := b1.live.index }],
            live := { id := b1.live.id + 1, recs := [], writeOff := SEGMENT_HEADER_SIZE, durable := SEGMENT_HEADER_SIZE,
                      index := [], pending := [], watch := SEGMENT_HEADER_SIZE } }

structure AppendOk where
  first : Nat
  last : Nat
  versions : List (Nat × Nat)   -- stream ↦ version, insertion order, later events of a stream overwrite
  offsets : List Nat
  writeOff : Nat                -- offset the client waits for
  deriving Repr

/-- the per-event loop of `handle_write`: returns the records written so far and the error, if any -/
def writeEvents (pkey pid txId : Nat) (single : Bool) (limit : Nat) :
    List NewEv → List (Option Nat) → Nat → Nat → List Placed → Except (Err × List Placed) (List Placed × Nat × Nat)
  | [], _, off, seq, acc => .ok (acc, off, seq)
  | _ :: _, [], _, _, acc => .error (.full, acc)      -- unreachable: one version per event
  | e :: es, cur :: curs, off, seq, acc =>
    if !e.tsOk then .error (.badTimestamp, acc)
    else if off + e.stored > limit then .error (.full, acc)
    else
      let version := match cur with | some v => v + 1 | none => 0
      let ev : Ev := { eid := e.eid, pkey := pkey, pid := pid, seq := seq, stream := e.stream, version := version, tx := txId, single := single }
      writeEvents pkey pid txId single limit es curs (off + e.stored) (seq + 1) (acc ++ [{ off := off, size := e.stored, r := .ev ev }])

def setVersion (vs : List (Nat × Nat)) (s v : Nat) : List (Nat × Nat) :=
  if vs.any (·.1 == s) then vs.map (fun x => if x.1 == s then (s, v) else x) else vs ++ [(s, v)]

/-- `Worker::handle_append_events` + `WriterSet::handle_write`, up to the reply (no sync wait) -/
def Bucket.appendTx (b : Bucket) (tx : Tx) : Bucket × Except Err AppendOk :=
  match validateVersions b tx.pkey tx.events [] with
  | .error e => (b, .error e)
  | .ok curs =>
    let single := tx.events.length == 1
    let eventsSize := (tx.events.map (·.estimate)).sum + (if single then 0 else COMMIT_SIZE)
    let upper := if b.compression then (tx.events.map (fun e => e.estimate + 4 + e.estimate / 256 + 64)).sum + COMMIT_SIZE else eventsSize
    if !b.compression && eventsSize + SEGMENT_HEADER_SIZE > b.segSize then (b, .error .tooLarge)
    else
      let b1 := if b.live.writeOff > SEGMENT_HEADER_SIZE && b.live.writeOff + upper > b.segSize then b.rollover else b
      let start := b1.live.writeOff
      let next := b1.nextPartSeq tx.pid
      let cur : Current := if next == 0 then .empty else .current (next - 1)
      if !storeAccepts tx.expectedSeq cur then (b1, .error .wrongSeq)
      else
        match writeEvents tx.pkey tx.pid tx.txId single b1.segSize tx.events curs start next [] with
        | .error (e, _) =>
          -- the partially written records are truncated (`set_len(start)`): nothing changes
          let e' := if e == .full && start == SEGMENT_HEADER_SIZE then .tooLarge else e
          (b1, .error e')
        | .ok (placed, off, nextAfter) =>
          if !single && off + COMMIT_SIZE > b1.segSize then
            (b1, .error (if start == SEGMENT_HEADER_SIZE then .tooLarge else .full))
          else
            let placed' := if single then placed else placed ++ [{ off := off, size := COMMIT_SIZE, r := .commit tx.txId tx.events.length }]
            let off' := if single then off else off + COMMIT_SIZE
            let entries := placed.filterMap (fun p => match p.r with | .ev e => some (entryOf e p.off) | _ => none)
            let versions := entries.foldl (fun vs e => setVersion vs e.stream e.version) []
            let live' := { b1.live with recs := b1.live.recs ++ placed', writeOff := off', pending := b1.live.pending ++ entries }
            let nextSeq' := (tx.pid, nextAfter) :: b1.nextSeq.filter (·.1 != tx.pid)
            ({ b1 with live := live', nextSeq := nextSeq' },
             .ok { first := next, last := nextAfter - 1, versions := versions, offsets := entries.map (·.off), writeOff := off' })

/-- the client's view of an append: reply, then `wait_for(synced ≥ write_offset)`; the wait is
over at the latest after the next FlushPoll-triggered `sync` -/
def Bucket.clientAppend (b : Bucket) (tx : Tx) : Bucket × Except Err AppendOk :=
  match b.appendTx tx with
  | (b', .ok r) => (if b'.live.watch ≥ r.writeOff then b' else b'.sync, .ok r)
  | (b', .error e) => (b', .error e)

end SierraModel.Store
