/-
Reader side of the store model: `read_committed_events` (segment/reader.rs), event lookup and
latest version / sequence queries (database.rs), and the scan iterators `BucketIter` /
`SegmentIter` (bucket/iter.rs, bucket/segment/iter.rs).  The block-cache read path and the pool
read path return the same groups (checked by the correspondence run); batch limits only cut the
group list into batches, so a scan is modelled as the full list of groups it yields.
-/
import SierraModel.Store.Model

namespace SierraModel.Store
open SierraModel.Version

/-- records readable in a segment: those that end at or before `limit` (the flushed offset) -/
def visible (recs : List Placed) (limit : Nat) : List Placed := recs.takeWhile (fun p => p.off + p.size ≤ limit)

/-- `read_committed_events` from the record list starting at the record that begins at `off`:
the group of events returned (`none`: nothing committed there). -/
def readCommittedAux : List Placed → Option Nat → List (Ev × Nat) → Option (List (Ev × Nat))
  | [], _, _ => none
  | p :: ps, pending, acc =>
    match p.r with
    | .ev e =>
      if e.single then some [(e, p.off)]
      else if pending != some e.tx then readCommittedAux ps (some e.tx) [(e, p.off)]
      else readCommittedAux ps pending (acc ++ [(e, p.off)])
    | .commit tx _ =>
      if pending == some tx && !acc.isEmpty then some acc else none

def readCommitted (recs : List Placed) (limit off : Nat) : Option (List (Ev × Nat)) :=
  readCommittedAux ((visible recs limit).dropWhile (fun p => p.off < off)) none []

/-! ### point queries -/

def lastOf (l : List Entry) (p : Entry → Bool) : Option Entry := l.reverse.find? p

/-- `Database::read_transaction` -/
def Bucket.readTransaction (b : Bucket) (eid : Nat) : Option (List (Ev × Nat)) :=
  match b.live.index.find? (·.eid == eid) with
  | some e => readCommitted b.live.recs b.live.durable e.off
  | none =>
    b.sealed.reverse.findSome? (fun s =>
      match s.index.find? (·.eid == eid) with
      | some e => some (readCommitted s.recs (s.recs.foldl (fun a p => max a (p.off + p.size)) 0) e.off)
      | none => none) |>.join

/-- `Database::get_stream_version`: (partition key, latest version) -/
def Bucket.streamVersion (b : Bucket) (stream : Nat) : Option (Nat × Nat) :=
  match lastOf b.live.index (·.stream == stream) with
  | some e => some (e.pkey, e.version)
  | none => (b.sealed.reverse.findSome? (fun s => lastOf s.index (·.stream == stream))).map (fun e => (e.pkey, e.version))

/-- `Database::get_partition_sequence` -/
def Bucket.partitionSequence (b : Bucket) (pid : Nat) : Option Nat :=
  match lastOf b.live.index (·.pid == pid) with
  | some e => some e.seq
  | none => (b.sealed.reverse.findSome? (fun s => lastOf s.index (·.pid == pid))).map (·.seq)

/-! ### scans -/

inductive Dir where
  | fwd | rev
  deriving DecidableEq, Repr

structure ScanCfg where
  isStream : Bool
  key : Nat
  deriving Repr

def ScanCfg.sel (c : ScanCfg) (e : Entry) : Bool := if c.isStream then e.stream == c.key else e.pid == c.key
def ScanCfg.pos (c : ScanCfg) (e : Ev) : Nat := if c.isStream then e.version else e.seq
def ScanCfg.keep (c : ScanCfg) (e : Ev) : Bool := if c.isStream then e.stream == c.key else true

/-- (first position of the key in this index, offsets of its events) -/
def keyInfo (c : ScanCfg) (index : List Entry) : Option (Nat × List Nat) :=
  match index.filter c.sel with
  | [] => none
  | e :: es => some (if c.isStream then e.version else e.seq, (e :: es).map (·.off))

def offsetsIndex (dir : Dir) (fromPos min len : Nat) : Nat :=
  if dir == .rev && fromPos == U64_MAX then len else Nat.min (fromPos - min) len

structure SegIter where
  segId : Nat
  isLive : Bool
  hasNext : Bool
  offsets : List Nat
  idx : Nat
  deriving Repr

/-- `SegmentIter::new` -/
def mkSegIter (segId : Nat) (isLive hasNext : Bool) (dir : Dir) (offsets : List Nat) (idx : Nat) : SegIter :=
  match dir with
  | .fwd => { segId := segId, isLive := isLive, hasNext := hasNext, offsets := offsets, idx := idx }
  | .rev => { segId := segId, isLive := isLive, hasNext := hasNext, offsets := offsets.reverse,
              idx := if idx < offsets.length then offsets.length - 1 - idx else 0 }

/-- `try_get_from_live_indexes` -/
def liveKey (b : Bucket) (c : ScanCfg) (dir : Dir) (fromPos : Nat) : Option (List Nat × Nat) :=
  match keyInfo c b.live.index with
  | none => none
  | some (min, offs) => if min > fromPos then none else some (offs, offsetsIndex dir fromPos min offs.length)

/-- `try_get_from_reader_set` for the sealed segment at position `i` of the reader pool's map -/
def sealedKey (s : Sealed) (c : ScanCfg) (dir : Dir) (fromPos i : Nat) : Option (List Nat × Nat) :=
  match keyInfo c s.index with
  | none => none
  | some (min, offs) =>
    if min ≤ fromPos || (dir == .fwd && i == 0) then some (offs, offsetsIndex dir fromPos min offs.length) else none

/-- `BucketIter::new_inner` -/
def newInner (b : Bucket) (c : ScanCfg) (dir : Dir) (fromPos nextSeg : Nat) (checkClosed : Bool) : Option SegIter :=
  let liveId := b.live.id
  let matchesLive : Bool := match dir with | .fwd => decide (liveId ≥ nextSeg) | .rev => decide (liveId ≤ nextSeg)
  match (if matchesLive then liveKey b c dir fromPos else none) with
  | some (offs, idx) => some (mkSegIter liveId true (match dir with | .fwd => false | .rev => decide (liveId > 0)) dir offs idx)
  | none =>
    if !checkClosed then none
    else
      -- the reader pool holds the sealed segments (with indexes) and the live one (without)
      let segsLen := b.sealed.length + 1
      let cands := (List.range b.sealed.length).reverse.filterMap (fun i =>
        match b.sealed[i]? with
        | none => none
        | some s =>
          let idOk : Bool := match dir with | .fwd => decide (s.id ≥ nextSeg) | .rev => decide (s.id ≤ nextSeg)
          if !idOk then none
          else (sealedKey s c dir fromPos i).map (fun r =>
            (s.id, r.1, r.2, (match dir with | .fwd => decide (segsLen - 1 > i) | .rev => decide (i > 0)))))
      match cands.head? with
      | some (sid, offs, idx, hasNext) => some (mkSegIter sid false hasNext dir offs idx)
      | none =>
        match liveKey b c dir fromPos with
        | some (offs, idx) => some (mkSegIter liveId true false dir offs idx)
        | none => none

def segRecs (b : Bucket) (segId : Nat) : Option (List Placed × Nat) :=
  if segId == b.live.id then some (b.live.recs, b.live.durable)
  else (b.sealed.find? (·.id == segId)).map (fun s => (s.recs, s.recs.foldl (fun a p => max a (p.off + p.size)) 0))

/-- `advance_offsets_index` -/
def advanceIdx (group : List (Ev × Nat)) (offsets : List Nat) (idx : Nat) : Nat :=
  match group with
  | [] => idx + 1
  | (e, o) :: rest =>
    if e.single then idx + 1
    else
      let mn := rest.foldl (fun m x => Nat.min m x.2) o
      let mx := rest.foldl (fun m x => Nat.max m x.2) o
      idx + 1 + ((offsets.drop (idx + 1)).takeWhile (fun x => x ≥ mn && x ≤ mx)).length

inductive ScanErr where
  | notFound        -- "event not found at offset …": an indexed offset holds no committed event
  | fuel
  deriving DecidableEq, Repr

/-- all groups of one segment iterator, filtered (stream filter; reverse: nothing beyond `upper`),
with the resume position for the next segment -/
def drainSeg (c : ScanCfg) (dir : Dir) (recs : List Placed) (limit upper : Nat) (offsets : List Nat) :
    Nat → Nat → Nat → List (List Ev) → Except ScanErr (List (List Ev) × Nat)
  | 0, _, lastPos, acc => .ok (acc, lastPos)
  | fuel + 1, idx, lastPos, acc =>
    match offsets[idx]? with
    | none => .ok (acc, lastPos)
    | some off =>
      match readCommitted recs limit off with
      | none => .error .notFound
      | some group =>
        let idx' := advanceIdx group offsets idx
        let evs := (group.map (·.1)).filter c.keep
        let evs := match dir with | .fwd => evs | .rev => evs.filter (fun e => c.pos e ≤ upper)
        match evs with
        | [] => drainSeg c dir recs limit upper offsets fuel idx' lastPos acc
        | e0 :: _ =>
          let lastPos' := match dir with
            | .fwd => c.pos (evs.getLast?.getD e0) + 1
            | .rev => c.pos e0 - 1
          drainSeg c dir recs limit upper offsets fuel idx' lastPos' (acc ++ [evs])

/-- a whole scan: `BucketIter::new` then `next_batch` until it returns `None` -/
def scanLoop (b : Bucket) (c : ScanCfg) (dir : Dir) : Nat → Option SegIter → Nat → List (List Ev) → Except ScanErr (List (List Ev))
  | 0, _, _, _ => .error .fuel
  | _, none, _, acc => .ok acc
  | fuel + 1, some it, upper, acc =>
    match segRecs b it.segId with
    | none => .ok acc
    | some (recs, limit) =>
      match drainSeg c dir recs limit upper it.offsets (it.offsets.length + 1) it.idx upper [] with
      | .error e => .error e
      | .ok (groups, lastPos) =>
        -- `last_position` only moves when a batch was returned
        let lastPos := if groups.isEmpty then upper else lastPos
        let acc := acc ++ groups
        if !it.isLive || it.hasNext then
          if dir == .rev && it.segId == 0 then .ok acc
          else
            let nextSeg := match dir with | .fwd => it.segId + 1 | .rev => it.segId - 1
            scanLoop b c dir fuel (newInner b c dir lastPos nextSeg it.hasNext) lastPos acc
        else .ok acc

def Bucket.scan (b : Bucket) (c : ScanCfg) (dir : Dir) (fromPos : Nat) : Except ScanErr (List (List Ev)) :=
  let first := newInner b c dir fromPos (match dir with | .fwd => 0 | .rev => 2 ^ 32 - 1) true
  scanLoop b c dir (b.sealed.length + 3) first fromPos []

end SierraModel.Store
