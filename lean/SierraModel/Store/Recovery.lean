/-
Crash and reopen of one bucket (seglog `Writer::open` recovery scan, `Worker::new` truncation to the
last committed transaction + index hydration, `DatabaseBuilder::open` loading / rebuilding the
closed indexes of sealed segments).

Crash model (process crash, OS survives): the live segment file keeps a prefix of the bytes handed
to the OS; everything below the fsynced offset survives in any case.  At record level: the records
that end at or before the cut survive; a torn record does not parse (hypothesis `Hcrc`, discharged
by C17 for truncations and checked on real bytes for every generated cut).
-/
import SierraModel.Store.Read

namespace SierraModel.Store

/-- end offset of the last committed transaction, scanning like `next_committed_events` -/
def committedEndAux : List Placed → Option Nat → Bool → Nat → Nat
  | [], _, _, e => e
  | p :: ps, pending, nonEmpty, e =>
    match p.r with
    | .ev ev =>
      if ev.single then committedEndAux ps none false (p.off + p.size)
      else committedEndAux ps (some ev.tx) true e
    | .commit tx _ =>
      if pending == some tx && nonEmpty then committedEndAux ps none false (p.off + p.size)
      else committedEndAux ps none false e

def committedEnd (recs : List Placed) : Nat := committedEndAux recs none false SEGMENT_HEADER_SIZE

/-- `Open*Index::hydrate`: one entry per event record -/
def hydrate (recs : List Placed) : List Entry :=
  recs.filterMap (fun p => match p.r with | .ev e => some (entryOf e p.off) | .commit _ _ => none)

/-- open a bucket from its files: `recsOnDisk` = surviving records of the live segment -/
def Bucket.openFrom (b : Bucket) (recsOnDisk : List Placed) : Bucket :=
  let endOff := committedEnd recsOnDisk
  let kept := recsOnDisk.takeWhile (fun p => p.off + p.size ≤ endOff)
  { b with
    sealed := b.sealed.map (fun s => { s with index := hydrate s.recs }),
    live := { id := b.live.id, recs := kept, writeOff := endOff, durable := endOff, index := hydrate kept,
              pending := [], watch := endOff },
    nextSeq := [] }

/-- clean shutdown (`handle_shutdown` syncs) and reopen -/
def Bucket.reopen (b : Bucket) : Bucket := b.openFrom b.live.recs

/-- crash with the live file cut at byte `cut`, then reopen -/
def Bucket.crashReopen (b : Bucket) (cut : Nat) : Bucket :=
  b.openFrom (b.live.recs.takeWhile (fun p => p.off + p.size ≤ cut))

end SierraModel.Store

namespace SierraModel.Store

/-- reopen after a crash inside the creation of the NEXT segment (its file exists but is blank):
the blank segment is recreated and becomes the live one; the previous live segment — fully synced
by the rollover that was in progress — is now a sealed segment whose indexes are rebuilt. -/
def Bucket.reopenBlankNext (b : Bucket) : Bucket :=
  { b with
    sealed := (b.sealed.map (fun s => { s with index := hydrate s.recs })) ++
              [{ id := b.live.id, recs := b.live.recs, index := hydrate b.live.recs }],
    live := { id := b.live.id + 1, recs := [], writeOff := SEGMENT_HEADER_SIZE, durable := SEGMENT_HEADER_SIZE,
              index := [], pending := [], watch := SEGMENT_HEADER_SIZE },
    nextSeq := [] }

end SierraModel.Store
