/-
The start of a scan over the live segment (`BucketIter::new_inner`, crates/sierradb/src/bucket/iter.rs):
which (segment id, offsets of the key) pair the iterator starts from.

  * `snapAtomic` — the fixed code (commit b4a03f1): the live segment id is read while the live-index
    read lock is held, so id and offsets come from ONE state.  This is what `liveKey` / `newInner`
    (Store/Read.lean) assume.
  * `snapSplit` — the pre-fix code: step 1 loads the live segment id from an atomic (state `b1`),
    step 2 takes the lock and copies the key's offsets (state `b2`); the writer may run in between
    (in particular a rollover, which swaps the live index and publishes the new id in one
    write-lock section).
-/
import SierraModel.Store.Read

namespace SierraModel.Store

/-- (live segment id, offsets of the key in the published live index), one atomic snapshot -/
def snapAtomic (b : Bucket) (c : ScanCfg) : Option (Nat × List Nat) :=
  (keyInfo c b.live.index).map (fun x => (b.live.id, x.2))

/-- the pre-fix two-step read: id from `b1`, offsets from `b2` -/
def snapSplit (b1 b2 : Bucket) (c : ScanCfg) : Option (Nat × List Nat) :=
  (keyInfo c b2.live.index).map (fun x => (b1.live.id, x.2))

/-- the record is an event record of the key -/
def isKeyRec (c : ScanCfg) (p : Placed) : Bool :=
  match p.r with
  | .ev e => c.sel (entryOf e p.off)
  | .commit _ _ => false

/-- every offset of `offs` is the offset of an event record of `recs` whose entry is selected by `c` -/
def OffsetsIn (recs : List Placed) (c : ScanCfg) (offs : List Nat) : Prop :=
  ∀ o ∈ offs, ∃ p ∈ recs, p.off = o ∧ isKeyRec c p = true

instance (recs : List Placed) (c : ScanCfg) (offs : List Nat) : Decidable (OffsetsIn recs c offs) := by
  unfold OffsetsIn; exact inferInstance

theorem snapAtomic_eq_liveKey (b : Bucket) (c : ScanCfg) (dir : Dir) (fromPos : Nat)
    (offs : List Nat) (idx : Nat) (h : liveKey b c dir fromPos = some (offs, idx)) :
    snapAtomic b c = some (b.live.id, offs) := by
  unfold liveKey at h
  unfold snapAtomic
  cases hk : keyInfo c b.live.index with
  | none => rw [hk] at h; cases h
  | some x =>
    obtain ⟨mn, o⟩ := x
    rw [hk] at h
    simp only [] at h
    split at h
    · cases h
    · injection h with h; injection h with h1 h2; subst h1; rfl

end SierraModel.Store
