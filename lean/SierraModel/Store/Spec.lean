/-
The reference event-store specification (per bucket): the list of committed transactions, each a
list of events with their assigned sequences and versions.  Everything a client can observe is a
function of it.
-/
import SierraModel.Store.Recovery

namespace SierraModel.Store
open SierraModel.Version

/-- a committed transaction: its events in order -/
abbrev SpecTx := List Ev

structure Spec where
  txs : List SpecTx := []
  deriving Repr

def Spec.events (s : Spec) : List Ev := s.txs.flatten

/-- latest (pkey, version) of a stream -/
def Spec.streamLatest (s : Spec) (stream : Nat) : Option (Nat × Nat) :=
  (s.events.reverse.find? (·.stream == stream)).map (fun e => (e.pkey, e.version))

/-- next partition sequence -/
def Spec.nextSeq (s : Spec) (pid : Nat) : Nat :=
  match s.events.reverse.find? (·.pid == pid) with
  | some e => e.seq + 1
  | none => 0

/-- event-by-event acceptance with the versions assigned so far inside the transaction -/
def Spec.checkEvents (s : Spec) (pkey : Nat) : List NewEv → List (Nat × Nat) → Except Err (List Nat)
  | [], _ => .ok []
  | e :: es, seen =>
    let cur : Except Err (Option Nat) :=
      match seen.find? (·.1 == e.stream) with
      | some (_, v) => .ok (some v)
      | none =>
        match s.streamLatest e.stream with
        | some (k, v) => if k != pkey then .error .keyMismatch else .ok (some v)
        | none => .ok none
    match cur with
    | .error err => .error err
    | .ok c =>
      let current : Current := match c with | some v => .current v | none => .empty
      if !storeAccepts e.expected current then .error .wrongVersion
      else
        let v := match c with | some v => v + 1 | none => 0
        (s.checkEvents pkey es ((e.stream, v) :: seen.filter (·.1 != e.stream))).map (v :: ·)

/-- the specification of an append: acceptance conditions only (space is a separate clause: C19) -/
def Spec.append (s : Spec) (tx : Tx) : Except Err (Spec × Nat × Nat) :=
  match s.checkEvents tx.pkey tx.events [] with
  | .error e => .error e
  | .ok versions =>
    let next := s.nextSeq tx.pid
    let cur : Current := if next == 0 then .empty else .current (next - 1)
    if !storeAccepts tx.expectedSeq cur then .error .wrongSeq
    else if tx.events.any (fun e => !e.tsOk) then .error .badTimestamp
    else
      let single := tx.events.length == 1
      let evs : List Ev := (tx.events.zip versions).zipIdx.map (fun ((e, v), i) =>
        { eid := e.eid, pkey := tx.pkey, pid := tx.pid, seq := next + i, stream := e.stream, version := v, tx := tx.txId, single := single })
      .ok ({ txs := s.txs ++ [evs] }, next, next + tx.events.length - 1)

/-- committed transactions found in a record list (`next_committed_events` iteration) -/
def committedAux : List Placed → Option Nat → List Ev → List SpecTx → List SpecTx
  | [], _, _, out => out
  | p :: ps, pending, acc, out =>
    match p.r with
    | .ev e =>
      if e.single then committedAux ps none [] (out ++ [[e]])
      else if pending != some e.tx then committedAux ps (some e.tx) [e] out
      else committedAux ps pending (acc ++ [e]) out
    | .commit tx _ =>
      if pending == some tx && !acc.isEmpty then committedAux ps none [] (out ++ [acc])
      else committedAux ps none [] out

def committedOf (recs : List Placed) : List SpecTx := committedAux recs none [] []

/-- abstraction: the committed transactions of all segments, oldest first -/
def Bucket.abs (b : Bucket) : Spec :=
  { txs := (b.sealed.map (fun s => committedOf s.recs)).flatten ++ committedOf b.live.recs }

end SierraModel.Store
