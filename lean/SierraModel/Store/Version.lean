/-
Model of `sierradb_protocol::{ExpectedVersion, CurrentVersion, VersionGap}`
(crates/sierradb-protocol/src/lib.rs).  u64 values are `Nat` with `≤ U64_MAX` as a hypothesis;
every arithmetic operation the Rust code performs on them is a *checked* operation here
(`none` = overflow/underflow = debug panic / release wrap), or the saturating operation where
the code saturates.
-/
namespace SierraModel.Version

def U64_MAX : Nat := 2 ^ 64 - 1

inductive Expected where
  | any | exists_ | empty | exact (v : Nat)
  deriving DecidableEq, Repr

inductive Current where
  | empty | current (v : Nat)
  deriving DecidableEq, Repr

inductive Gap where
  | none | ahead (n : Nat) | behind (n : Nat) | incompatible
  deriving DecidableEq, Repr

def subU64 (a b : Nat) : Option Nat := if b ≤ a then some (a - b) else none
def addU64 (a b : Nat) : Option Nat := if a + b ≤ U64_MAX then some (a + b) else none
/-- `u64::saturating_add` -/
def satAddU64 (a b : Nat) : Nat := if a + b ≤ U64_MAX then a + b else U64_MAX

/-- `ExpectedVersion::gap_from`; `none` = arithmetic trap. -/
def gapFrom : Expected → Current → Option Gap
  | .any, _ => some .none
  | .exists_, .empty => some .incompatible
  | .exists_, .current _ => some .none
  | .empty, .empty => some .none
  | .empty, .current n => some (.ahead (satAddU64 n 1))
  | .exact e, .empty => some (.behind (satAddU64 e 1))
  | .exact e, .current c =>
    if e = c then some .none
    else if e > c then (subU64 e c).map .behind
    else (subU64 c e).map .ahead

/-- `ExpectedVersion::is_satisfied_by` (`matches!(self.gap_from(current), VersionGap::None)`). -/
def isSatisfiedBy (e : Expected) (c : Current) : Option Bool :=
  (gapFrom e c).map (fun g => g == .none)

/-- `ExpectedVersion::from_next_version` -/
def fromNext (v : Nat) : Option Expected :=
  if v = 0 then some .empty else (subU64 v 1).map .exact

inductive NextRes where
  | some (v : Nat) | none | panic
  deriving DecidableEq, Repr

/-- `ExpectedVersion::into_next_version` (`panic` = the documented panic on Any/Exists). -/
def intoNext : Expected → NextRes
  | .empty => .some 0
  | .exact v => match addU64 v 1 with   -- checked_add
    | some n => .some n
    | none => .none
  | _ => .panic

/-- `CurrentVersion::next` -/
def Current.next : Current → Option Nat
  | .current v => addU64 v 1
  | .empty => some 0

/-- `CurrentVersion::as_expected_version` -/
def Current.asExpected : Current → Expected
  | .current v => .exact v
  | .empty => .empty

/-! ### The acceptance predicate the *store* uses (writer_thread_pool.rs:
`validate_event_versions` / `validate_partition_sequence`); C25 states `isSatisfiedBy` equals
it, C02's store model uses it. -/
def storeAccepts : Expected → Current → Bool
  | .any, _ => true
  | .exists_, .current _ => true
  | .exists_, .empty => false
  | .empty, .empty => true
  | .empty, .current _ => false
  | .exact e, .current c => e == c
  | .exact _, .empty => false

/-! ### Display / FromStr -/

/-- decimal digits, most significant first (`u64`'s `Display`). -/
def digitsAux : Nat → Nat → List Char → List Char
  | 0, _, acc => acc
  | fuel + 1, n, acc =>
    let acc' := Char.ofNat (48 + n % 10) :: acc
    if n / 10 = 0 then acc' else digitsAux fuel (n / 10) acc'

def digits (n : Nat) : List Char := digitsAux (n + 1) n []

def display : Expected → List Char
  | .any => ['a', 'n', 'y']
  | .exists_ => ['e', 'x', 'i', 's', 't', 's']
  | .empty => ['e', 'm', 'p', 't', 'y']
  | .exact v => digits v

def isDigit (c : Char) : Bool := 48 ≤ c.toNat && c.toNat ≤ 57

/-- `u64::from_str` on the digit part: non-empty, all ASCII digits, value fits. -/
def parseDigits : List Char → Nat → Option Nat
  | [], acc => some acc
  | c :: cs, acc =>
    if isDigit c then
      let acc' := acc * 10 + (c.toNat - 48)
      if acc' ≤ U64_MAX then parseDigits cs acc' else none
    else none

def parseU64 (s : List Char) : Option Nat :=
  match s with
  | [] => none
  | '+' :: rest => if rest.isEmpty then none else parseDigits rest 0
  | _ => parseDigits s 0

/-- `ExpectedVersion::from_str` -/
def parse (s : List Char) : Option Expected :=
  if s = ['e', 'm', 'p', 't', 'y'] then some .empty
  else if s = ['a', 'n', 'y'] then some .any
  else if s = ['e', 'x', 'i', 's', 't', 's'] then some .exists_
  else (parseU64 s).map .exact

end SierraModel.Version
