/-
Model of partition/bucket placement:
  * `AppConfig::assigned_buckets` / `assigned_partitions`  (crates/sierradb-server/src/config.rs)
  * `TopologyManager::calculate_assigned_partitions` / `calculate_partition_replicas`
    (crates/sierradb-topology/src/manager.rs)
usize / u16 / u8 values are `Nat` (no arithmetic here can leave the machine range:
`primary + offset < 2 * node_count`).  Only automatic assignment is modelled (explicit
`bucket.ids` / `partition.ids` overrides are outside C13's quantifier).
-/
namespace SierraModel.Topology

/-- `(replication_factor as usize).min(node_count)` -/
def effRf (rf n : Nat) : Nat := min rf n

/-- the inner `for replica_offset in 0..erf { if (primary + off) % n == i { insert; break } }` -/
def isReplicaNode (b n rf i : Nat) : Bool :=
  (List.range (effRf rf n)).any (fun off => (b % n + off) % n == i)

/-- `AppConfig::assigned_buckets` (automatic assignment), as an ascending list -/
def cfgBuckets (i n B rf : Nat) : List Nat := (List.range B).filter (fun b => isReplicaNode b n rf i)

/-- `AppConfig::assigned_partitions` -/
def cfgPartitions (i n B P rf : Nat) : List Nat :=
  (List.range P).filter (fun p => (cfgBuckets i n B rf).contains (p % B))

/-- `TopologyManager::calculate_assigned_partitions` -/
def topoPartitions (i n P B rf : Nat) : List Nat :=
  let assignedBuckets := (List.range B).filter (fun b => isReplicaNode b n rf i)
  (List.range P).filter (fun p => assignedBuckets.contains (p % B))

/-- replica node *indexes* of a partition, in replica order
(`calculate_partition_replicas` before the `known_nodes` lookup) -/
def replicaIdx (p B n rf : Nat) : List Nat :=
  (List.range (effRf rf n)).map (fun off => ((p % B) % n + off) % n)

/-- `known_nodes : HashMap<usize, T>` as an association list index ↦ peer -/
abbrev Known := List (Nat × Nat)

def Known.get (k : Known) (idx : Nat) : Option Nat := (k.find? (fun e => e.1 == idx)).map (·.2)

/-- `TopologyManager::calculate_partition_replicas` -/
def partitionReplicas (p B n rf : Nat) (known : Known) : List Nat :=
  if known.isEmpty then [] else (replicaIdx p B n rf).filterMap known.get

end SierraModel.Topology
