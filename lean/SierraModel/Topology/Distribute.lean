/-
Model of `sierradb_topology::distribute_partition` (crates/sierradb-topology/src/lib.rs).

u16 inputs are modelled as `Nat` (< 2^16 is a hypothesis of the theorems and is enforced by
the driver).  The only arithmetic that can leave the machine range is `current + jump`, which
the code performs in `u32` (after the F12 fix); it is modelled by the *checked* `addU32`, so an
overflow is a visible `none` (= debug panic / release wrap), never silently a `Nat` sum.
-/
namespace SierraModel.Topology

def MAX_REPLICATION_FACTOR : Nat := 12

/-- checked u32 addition: `none` stands for overflow (panic in debug, wrap in release). -/
def addU32 (a b : Nat) : Option Nat := if a + b < 2 ^ 32 then some (a + b) else none

/-- the `jump` computation of `distribute_partition`. -/
def jump (n : Nat) : Nat :=
  if n ≤ 2 then 1
  else
    let candidate := n / 2 + 1
    if n % 2 == 0 && candidate % 2 == 0 then candidate + 1 else candidate

/-- the `for _ in 1..actual_replication` loop; first argument = remaining iterations. -/
def walk (n j : Nat) : Nat → Nat → List Nat → Option (List Nat)
  | 0, _, acc => some acc
  | k + 1, cur, acc =>
    match addU32 cur j with
    | none => none
    | some s =>
      let cur' := s % n
      if acc.contains cur' || acc.length ≥ MAX_REPLICATION_FACTOR then some acc  -- `break`
      else walk n j k cur' (acc ++ [cur'])

def distribute (h n rf : Nat) : Option (List Nat) :=
  if n == 0 then some []
  else
    let actual := min rf (min n MAX_REPLICATION_FACTOR)
    if actual == 0 then some []
    else
      let primary := h % n
      if actual > 1 then walk n (jump n) (actual - 1) primary [primary]
      else some [primary]

end SierraModel.Topology
