/-
Model of `TopologyManager<T>` membership handling (crates/sierradb-topology/src/manager.rs):
`new`, `on_node_connected`, `on_node_disconnected`, `on_heartbeat`, `check_heartbeat_timeouts`
(the set of timed-out peers is an input: it is a function of wall-clock instants),
`handle_ownership_response`, `recalculate_partition_assignments`, `get_available_replicas`.
Peers are `Nat`s whose order is the order of the cluster refs (`T: Ord`).
-/
import SierraModel.Topology.Assign

namespace SierraModel.Topology

structure Cfg where
  n : Nat      -- total_node_count
  P : Nat      -- num_partitions
  B : Nat      -- bucket_count
  rf : Nat     -- replication_factor
  deriving Repr, DecidableEq

/-- association list with HashMap semantics (insert replaces) -/
def amInsert (m : List (Nat × α)) (k : Nat) (v : α) : List (Nat × α) :=
  if m.any (fun e => e.1 == k) then m.map (fun e => if e.1 == k then (k, v) else e) else m ++ [(k, v)]
def amRemove (m : List (Nat × α)) (k : Nat) : List (Nat × α) := m.filter (fun e => !(e.1 == k))
def amGet (m : List (Nat × α)) (k : Nat) : Option α := (m.find? (fun e => e.1 == k)).map (·.2)
def amHas (m : List (Nat × α)) (k : Nat) : Bool := m.any (fun e => e.1 == k)

structure Mgr where
  cfg : Cfg
  localPeer : Nat
  localIdx : Nat
  aliveSince : Nat
  active : List (Nat × (Nat × Nat))   -- peer ↦ (alive_since, node_index)
  refs : List Nat                     -- peers with a known cluster ref (`cluster_nodes` keys)
  replicas : List (List Nat)          -- partition_replicas for partitions 0..P-1 (peers, replica order)
  deriving Repr

/-- `known_nodes`: index ↦ peer for active nodes with a cluster ref -/
def knownOf (active : List (Nat × (Nat × Nat))) (refs : List Nat) : Known :=
  active.filterMap (fun e => if refs.contains e.1 then some (e.2.2, e.1) else none)

/-- `recalculate_partition_assignments` -/
def recalc (m : Mgr) : Mgr :=
  let known := knownOf m.active m.refs
  { m with replicas := (List.range m.cfg.P).map (fun p => partitionReplicas p m.cfg.B m.cfg.n m.cfg.rf known) }

def addRef (refs : List Nat) (p : Nat) : List Nat := if refs.contains p then refs else refs ++ [p]

def Mgr.new (cfg : Cfg) (peer idx since : Nat) : Mgr :=
  recalc { cfg := cfg, localPeer := peer, localIdx := idx, aliveSince := since,
           active := [(peer, (since, idx))], refs := [peer], replicas := [] }

def onConnected (m : Mgr) (peer since idx : Nat) : Mgr :=
  recalc { m with active := amInsert m.active peer (since, idx), refs := addRef m.refs peer }

def onDisconnected (m : Mgr) (peer : Nat) : Mgr :=
  recalc { m with active := amRemove m.active peer, refs := m.refs.filter (· != peer) }

/-- returns the new state and `status_changed` -/
def onHeartbeat (m : Mgr) (peer since idx : Nat) : Mgr × Bool :=
  let m1 := { m with refs := addRef m.refs peer }
  match amGet m.active peer with
  | some (_, existingIdx) =>
    if existingIdx != idx then (recalc { m1 with active := amInsert m1.active peer (since, idx) }, true)
    else (m1, false)
  | none => (recalc { m1 with active := amInsert m1.active peer (since, idx) }, true)

/-- `check_heartbeat_timeouts` with the timed-out set given (local peer never times out) -/
def onTimeouts (m : Mgr) (timedOut : List Nat) : Mgr × Bool :=
  let victims := timedOut.filter (fun p => p != m.localPeer && amHas m.active p)
  if victims.isEmpty then (m, false)
  else (recalc { m with active := m.active.filter (fun e => !victims.contains e.1),
                        refs := m.refs.filter (fun p => !victims.contains p) }, true)

/-- `handle_ownership_response` (after the F16 fix): learn refs from the message's replica sets,
adopt the addressable active nodes, keep ourselves, recalculate. -/
def onOwnershipResponse (m : Mgr) (msgReplicaPeers : List Nat) (msgActive : List (Nat × (Nat × Nat))) : Mgr :=
  let refs := msgReplicaPeers.foldl addRef m.refs
  let act := msgActive.foldl (fun acc e => if refs.contains e.1 then amInsert acc e.1 e.2 else acc) []
  recalc { m with refs := refs, active := amInsert act m.localPeer (m.aliveSince, m.localIdx) }

/-- insertion sort by (alive_since, peer) — `available.sort_by(...)` -/
def insertBy (x : Nat × Nat) : List (Nat × Nat) → List (Nat × Nat)
  | [] => [x]
  | y :: ys => if x.2 < y.2 || (x.2 == y.2 && x.1 ≤ y.1) then x :: y :: ys else y :: insertBy x ys

/-- `get_available_replicas`: (peer, alive_since) sorted by (alive_since, peer) -/
def availableReplicas (m : Mgr) (p : Nat) : List (Nat × Nat) :=
  match m.replicas[p]? with
  | none => []
  | some rs =>
    (rs.filterMap (fun peer => (amGet m.active peer).map (fun v => (peer, v.1)))).foldl (fun acc x => insertBy x acc) []

inductive Ev where
  | connect (peer since idx : Nat)
  | disconnect (peer : Nat)
  | heartbeat (peer since idx : Nat)
  | timeouts (peers : List Nat)
  | response (replicaPeers : List Nat) (active : List (Nat × (Nat × Nat)))
  deriving Repr

def stepEv (m : Mgr) : Ev → Mgr
  | .connect p s i => onConnected m p s i
  | .disconnect p => onDisconnected m p
  | .heartbeat p s i => (onHeartbeat m p s i).1
  | .timeouts ps => (onTimeouts m ps).1
  | .response rp a => onOwnershipResponse m rp a

end SierraModel.Topology
