#!/bin/sh
# Build the framework offline from files on disk only.
set -e
cd "$(dirname "$0")"
exec python3 ./check --setup
