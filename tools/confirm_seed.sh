#!/bin/bash
# confirm_seed.sh <id> <worktree> <crate> <kind: itest|unit> <target-file-for-unit> <test-filter>
# re-runs, in the agent's scratch worktree: crate lib tests with the change (must pass), the
# demonstration with the change (must fail) and without it (must pass).
id=$1; wt=$2; crate=$3; kind=$4; unitfile=$5; filter=$6
cd $wt || exit 2
export CARGO_NET_OFFLINE=true
git checkout -q -- . ; git apply $wt/patch.diff || exit 2
echo "[suite with change]"; cargo test -p $crate --offline --lib 2>&1 | grep -E "^test result" | head -3
install_demo() {
  if [ $kind = itest ]; then mkdir -p $wt/crates/$crate_dir/tests; cp $wt/demo/*.rs $wt/crates/$crate_dir/tests/; else
    python3 - "$wt/$unitfile" "$wt/demo/test_fn.rs" <<'PY'
import sys,re
src=open(sys.argv[1]).read(); demo=open(sys.argv[2]).read()
i=src.rindex('}')   # end of mod tests (last item in file)
open(sys.argv[1],'w').write(src[:i]+demo+"\n}\n")
PY
  fi; }
crate_dir=$crate
install_demo
if [ $kind = itest ]; then t=$(basename $wt/demo/*.rs .rs); cmd="cargo test -p $crate --offline --test $t"; else cmd="cargo test -p $crate --offline --lib $filter"; fi
echo "[demo with change]"; $cmd 2>&1 | grep -E "^test result|panicked" | head -4
git apply -R $wt/patch.diff
echo "[demo without change]"; $cmd 2>&1 | grep -E "^test result|panicked" | head -4
git checkout -q -- .; [ $kind = itest ] && rm -f $wt/crates/$crate_dir/tests/$(basename $wt/demo/*.rs)
git apply $wt/patch.diff
