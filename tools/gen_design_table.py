#!/usr/bin/env python3
"""Regenerates the generated parts of DESIGN.md §10 (between the BEGIN/END markers) from
checks.json, known_findings.json and seeded/*/meta.json, so the document cannot drift from what
the checks actually do."""
import json, os, re, glob
ROOT = os.path.dirname(os.path.dirname(os.path.abspath(__file__)))
checks = json.load(open(os.path.join(ROOT, "checks.json")))
known = json.load(open(os.path.join(ROOT, "known_findings.json")))
props = {json.loads(l)["id"]: json.loads(l) for l in open(os.path.join(ROOT, "properties.jsonl"))}
out = []
out.append("#### Per property: what decides it (generated from checks.json)\n")
for pid in sorted(props):
    c = checks.get(pid)
    if not c:
        out.append(f"* **{pid}** — not claimed (see MANIFEST `not_applicable`).\n"); continue
    fams = ", ".join(f["name"] for f in c.get("families", []))
    obs = [o.split(".")[-1] for o in c["obligations"]]
    partial = [o for o in obs if "partial" in o]
    out.append(f"* **{pid}** {props[pid]['title']}  \n"
               f"  theorems (`{c['module']}`, {len(obs)}): " + ", ".join(f"`{o}`" for o in obs) + "  \n"
               f"  tie: harness families `{fams}` (differential vs the Lean driver) + property oracle `{', '.join(c.get('oracle_ids', [pid]))}` on the real outputs"
               + (f"; op filter `{c['op_filter']}`" if c.get("op_filter") else "") + "  \n"
               + (f"  partial theorems: {', '.join('`'+o+'`' for o in partial)}  \n" if partial else "")
               + ("  not covered / partial: " + " | ".join(c["partial"]) + "  \n" if c.get("partial") else "  proved at full strength over the model's quantifier; see `assumptions` in checks.json for the hypotheses  \n")
               + ("  assumptions: " + " | ".join(c["assumptions"]) + "\n" if c.get("assumptions") else ""))
out.append("\n#### Findings (generated from known_findings.json)\n")
out.append("| property | status | commit | key | what |\n|---|---|---|---|---|\n")
for e in known:
    what = (e.get("what") or e.get("note") or e.get("title") or "").replace("|", "/").replace("\n", " ")
    out.append(f"| {e['property']} | {e.get('status')} | {e.get('commit') or ''} | `{(e.get('key') or e.get('key_prefix') or '').replace('|','/')[:70]}` | {what[:220]} |\n")
out.append("\n#### Seeded changes (generated from seeded/*/meta.json)\n")
out.append("Each was written by a fresh sub-agent that saw only the property text and a scratch worktree; each compiles, passes the crate's existing tests, and has a demonstration that fails with the change and passes without it (re-run by me, `tools/confirm_seed.sh`).\n\n| seed | file(s) changed | what it breaks | caught by | how |\n|---|---|---|---|---|\n")
for p in sorted(glob.glob(os.path.join(ROOT, "seeded", "*", "meta.json"))):
    m = json.load(open(p)); sid = os.path.basename(os.path.dirname(p))
    cb = m.get("caught_by", {})
    out.append(f"| {sid} | {', '.join(m.get('files_changed', []))} | {m.get('what_breaks','').replace('|','/')[:260]} | `{cb.get('check','')}` ({cb.get('tier','')}) | {cb.get('result','').replace('|','/')[:200]} |\n")
text = "".join(out)
p = os.path.join(ROOT, "DESIGN.md")
s = open(p).read()
b, e = "<!-- BEGIN GENERATED -->\n", "<!-- END GENERATED -->\n"
if b in s:
    s = s[:s.index(b) + len(b)] + text + s[s.index(e):]
else:
    s += "\n### 10.3 Per property, findings and seeded changes (generated)\n" + b + text + e
open(p, "w").write(s)
print("DESIGN.md updated")
