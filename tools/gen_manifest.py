#!/usr/bin/env python3
"""Regenerate MANIFEST.json from checks.json (claimed properties) + properties.jsonl."""
import json, os, subprocess
R = os.path.dirname(os.path.dirname(os.path.abspath(__file__)))
props = [json.loads(l) for l in open(os.path.join(R, "properties.jsonl"))]
cfg = json.load(open(os.path.join(R, "checks.json")))
na_reasons = json.load(open(os.path.join(R, "tools", "not_applicable.json")))
hooks = subprocess.run(["git", "-C", "/repo", "log", "--format=%H %s"], capture_output=True, text=True).stdout.splitlines()
hook_commits = [l.split()[0] for l in hooks if " verif hook" in l]
checks = []
for p in props:
    c = cfg.get(p["id"])
    if not c: continue
    checks.append({
        "property_id": p["id"],
        "quick_cmd": f"./check {p['id']} --tier quick",
        "thorough_cmd": f"./check {p['id']} --tier thorough",
        "evidence_file": f"/verif/evidence/{p['id']}.json",
        "replay_cmd_template": f"./check {p['id']} --replay {{path}}",
        "engine": "lean-model+vharness",
        "level_claimed": {"category": "proof", "text": c.get("level_text", ""), "design_ref": c.get("design_ref", "DESIGN.md §7")},
        "level_note": c.get("level_note", "; ".join(c.get("trusted_base", []) + c.get("assumptions", []))),
        "technique": c.get("technique", "Lean 4 theorems over an executable model + differential correspondence run against the real code"),
    })
m = {
    "version": 1,
    "setup_cmd": "./setup.sh",
    "hooks": {"guard": "sierradb_verif", "enable": "rustflags --cfg sierradb_verif in /verif/harness/.cargo/config.toml (the harness builds /repo's crates as path dependencies)",
              "baseline_off_cmd": "cd /repo && cargo test --workspace --no-fail-fast --offline",
              "source_commits": hook_commits, "add_only": False},
    "engines": [
        {"name": "lean-model", "path": "/verif/lean", "serves_properties": [c["property_id"] for c in checks],
         "kind_free_text": "Lean 4 executable models (SierraModel/*), property theorems (SierraModel/Props/*.lean), compiled model driver modeldrv"},
        {"name": "vharness", "path": "/verif/harness", "serves_properties": [c["property_id"] for c in checks],
         "kind_free_text": "Rust correspondence harness linking /repo's crates from the working tree: differential run model vs implementation + property oracle on the implementation's outputs"}],
    "checks": checks,
    "notes": "Every check = (1) kernel-checked Lean theorems about the model, audited with #print axioms, (2) correspondence run tying the model to /repo's current source, (3) property oracle on the implementation as failing-input search. See DESIGN.md.",
    "not_applicable": [{"property_id": p["id"], "reason": na_reasons.get(p["id"], "not yet built (machinery under construction; see DESIGN.md §9)")} for p in props if p["id"] not in cfg],
}
json.dump(m, open(os.path.join(R, "MANIFEST.json"), "w"), indent=1)
print("claimed:", [c["property_id"] for c in checks])
