#!/bin/sh
# mkws.sh <name>: scratch workspace for a sub-task: copy of /verif + git worktree of /repo, own cargo target dir.
set -e
n=$1
W=/tmp/ws-$n
rm -rf $W; mkdir -p $W
git -C /repo worktree prune
git -C /repo worktree add -q --detach $W/repo HEAD
rsync -a --exclude .target --exclude work --exclude .git /verif/ $W/verif/
cp -r /verif/.target $W/target
sed -i "s#/repo/crates#$W/repo/crates#g" $W/verif/harness/Cargo.toml
sed -i "s#/verif/.target#$W/target#" $W/verif/harness/.cargo/config.toml
sed -i "s#\"/repo/Cargo.lock\"#\"$W/repo/Cargo.lock\"#" $W/verif/check
echo $W
ln -s $W/target $W/verif/.target
