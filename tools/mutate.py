#!/usr/bin/env python3
"""Mechanical mutation study of the checks (run in a scratch workspace made by tools/mkws.sh, never
in /repo):  python3 tools/mutate.py <workspace> <n-mutants> <seed> [file-substring]

For each sampled one-token mutant of an anchored source file: apply it to the workspace's repo
worktree, rebuild the harness, run the quick checks that own the file; a mutant no check kills is
then run against the crate's existing unit tests.  Results go to <workspace>/mutants.jsonl.
Survivors that also pass the existing tests are either equivalent mutants or blind spots of the
checks: they are triaged by hand (DESIGN.md section 10.2a)."""
import json, os, random, re, subprocess, sys

W = sys.argv[1]; N = int(sys.argv[2]); SEED = int(sys.argv[3]); ONLY = sys.argv[4] if len(sys.argv) > 4 else ""
REPO, VERIF = f"{W}/repo", f"{W}/verif"
OWN = {  # file -> (crate, checks)
 "crates/seglog/src/write.rs": ("seglog", ["C17", "C18", "C01", "C05"]),
 "crates/seglog/src/read.rs": ("seglog", ["C17", "C18"]),
 "crates/seglog/src/parse.rs": ("seglog", ["C17"]),
 "crates/sierradb/src/writer_thread_pool.rs": ("sierradb", ["C02", "C01", "C04", "C05", "C19", "C16", "C20", "C15"]),
 "crates/sierradb/src/bucket/iter.rs": ("sierradb", ["C03", "C15"]),
 "crates/sierradb/src/bucket/segment/iter.rs": ("sierradb", ["C03", "C04"]),
 "crates/sierradb/src/bucket/segment/reader.rs": ("sierradb", ["C04", "C05", "C06", "C03"]),
 "crates/sierradb/src/database.rs": ("sierradb", ["C06", "C02", "C01", "C23"]),
 "crates/sierradb/src/id.rs": ("sierradb", ["C23"]),
 "crates/sierradb-cluster/src/confirmation.rs": ("sierradb-cluster", ["C08"]),
 "crates/sierradb-cluster/src/read.rs": ("sierradb-cluster", ["C07", "C22"]),
 "crates/sierradb-cluster/src/subscription.rs": ("sierradb-cluster", ["C09"]),
 "crates/sierradb-cluster/src/write/ordered_queue.rs": ("sierradb-cluster", ["C12"]),
 "crates/sierradb-cluster/src/write/replicate.rs": ("sierradb-cluster", ["C12", "C10", "C11"]),
 "crates/sierradb-cluster/src/write/transaction.rs": ("sierradb-cluster", ["C11", "C10"]),
 "crates/sierradb-cluster/src/circuit_breaker.rs": ("sierradb-cluster", ["C26"]),
 "crates/sierradb-topology/src/lib.rs": ("sierradb-topology", ["C24", "C14"]),
 "crates/sierradb-topology/src/manager.rs": ("sierradb-topology", ["C14", "C13"]),
 "crates/sierradb-protocol/src/lib.rs": ("sierradb-protocol", ["C25"]),
 "crates/sierradb-server/src/parser.rs": ("sierradb-server", ["C21"]),
 "crates/sierradb-server/src/config.rs": ("sierradb-server", ["C13"]),
 "crates/sierradb-server/src/request/epscan.rs": ("sierradb-server", ["C22", "C21"]),
 "crates/sierradb-server/src/request/escan.rs": ("sierradb-server", ["C22", "C21"]),
 "crates/sierradb-server/src/request/eappend.rs": ("sierradb-server", ["C22", "C21"]),
 "crates/sierradb-server/src/request/emappend.rs": ("sierradb-server", ["C22", "C21"]),
}
OPS = [(r"<=", "<"), (r">=", ">"), (r"(?<![<>=!-])<(?![<=])", "<="), (r"(?<![<>=!-])>(?![>=])", ">="), (r"==", "!="), (r"!=", "=="),
       (r"\+ 1\b", "+ 0"), (r"- 1\b", "- 0"), (r"&&", "||"), (r"\|\|", "&&"), (r"\.min\(", ".max("), (r"\.max\(", ".min("),
       (r"\bbreak\b", "continue"), (r"saturating_sub\(1\)", "saturating_sub(0)"), (r"saturating_add\(1\)", "saturating_add(0)"),
       (r"\bis_some\(\)", "is_none()"), (r"\bis_empty\(\)", "is_empty() == false"), (r"\.rev\(\)", "")]
SKIP = re.compile(r"^\s*(//|#\[|debug!|trace!|info!|warn!|error!|use |pub use |mod |assert|debug_assert)|->|=>|<'|::<|Vec<|Option<|Result<|Arc<|impl<|fn .*<|HashMap<|BTreeMap<|SmallVec<|Box<|dyn |&'|where ")

def sites(path):
    src = open(os.path.join(REPO, path)).read().split("\n")
    out = []; in_test = False; verif_depth = None; skip_next = False
    for i, line in enumerate(src):
        if re.match(r"\s*#\[cfg\(test\)\]", line): in_test = True
        if in_test: continue
        if verif_depth is not None:
            if line.startswith(verif_depth + "}"): verif_depth = None
            continue
        if "cfg(sierradb_verif)" in line: skip_next = True; continue
        if skip_next:
            skip_next = False
            if line.rstrip().endswith("{"): verif_depth = line[:len(line) - len(line.lstrip())]
            continue
        if SKIP.search(line) or '"' in line and ("{}" in line or "{:" in line): continue
        for k, (pat, rep) in enumerate(OPS):
            for m in re.finditer(pat, line):
                # skip generics / arrows / comments
                if "//" in line[:m.start()]: continue
                out.append((path, i, m.start(), m.end(), rep, line))
    return out

def sh(cmd, cwd, timeout=3600):
    try:
        p = subprocess.run(cmd, cwd=cwd, shell=True, capture_output=True, text=True, timeout=timeout,
                           env=dict(os.environ, CARGO_NET_OFFLINE="true", VERIF_SEED="1"))
        return p.returncode, p.stdout + p.stderr
    except subprocess.TimeoutExpired:
        return 124, "timeout"

def reap():
    """kill leftovers of a hung mutant (harness / test binaries of THIS workspace only)"""
    for pid in os.listdir("/proc"):
        if not pid.isdigit(): continue
        try: exe = os.readlink(f"/proc/{pid}/exe")
        except OSError: continue
        if exe.startswith(W + "/"):
            try: os.kill(int(pid), 9)
            except OSError: pass

def main():
    rnd = random.Random(SEED)
    allsites = []
    for f in OWN:
        if ONLY and ONLY not in f: continue
        s = sites(f); rnd.shuffle(s); allsites += s[:max(2, N // 6)]
    rnd.shuffle(allsites); allsites = allsites[:N]
    out = open(os.path.join(W, "mutants.jsonl"), "a")
    for (path, ln, a, b, rep, line) in allsites:
        full = os.path.join(REPO, path)
        orig = open(full).read()
        lines = orig.split("\n"); lines[ln] = line[:a] + rep + line[b:]
        open(full, "w").write("\n".join(lines))
        rec = {"file": path, "line": ln + 1, "from": line.strip(), "to": lines[ln].strip()}
        crate, checks = OWN[path]
        rc, o = sh("cargo build --offline 2>&1 | tail -3", os.path.join(VERIF, "harness"))
        if "error" in o and "Finished" not in o:
            rec["result"] = "compile-error"
        else:
            killed = []
            for c in checks:
                rc, o = sh(f"./check {c} | tail -1", VERIF, timeout=700)
                if rc == 124: reap(); killed.append(c + " (hang)"); break
                if "VIOLATION" in o: killed.append(c + (" (no-failing-input)" if "no-failing-input-found" in o else "")); break
            rec["killed_by"] = killed
            if killed: rec["result"] = "killed"
            else:
                rc, o = sh(f"cargo test -p {crate} --offline --lib 2>&1 | grep -E '^test result' | head -1", REPO, timeout=900)
                if rc == 124: reap()
                rec["existing_tests"] = o.strip()[:100]
                rec["result"] = "SURVIVED" if " 0 failed" in o else "killed-by-existing-tests-only"
        open(full, "w").write(orig)
        sh("rm -rf replays", VERIF); reap()
        out.write(json.dumps(rec) + "\n"); out.flush()
        print(rec["result"], path, ln + 1, "|", rec["from"][:70], "=>", rec["to"][:70], "|", rec.get("killed_by"), flush=True)

main()
