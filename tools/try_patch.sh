#!/bin/bash
# try_patch.sh <patch.diff> <label> [ids...]: apply a patch to /repo, run the quick checks, restore /repo.
p=$1; label=$2; shift 2
ids=${@:-C01 C02 C03 C04 C05 C06 C07 C08 C09 C10 C11 C12 C13 C14 C15 C16 C17 C18 C19 C20 C21 C22 C23 C24 C25 C26}
cd /repo || exit 2
[ -n "$(git status --short)" ] && { echo "repo dirty"; exit 2; }
git apply "$p" || exit 2
log=/verif/work/patch-$label.log; : > $log
for id in $ids; do (cd /verif && ./check $id 2>&1 | grep -E "^(OK|VIOLATION)" | cut -c1-170 >> $log; f=$(ls replays/$id 2>/dev/null | head -1); [ -n "$f" ] && { sed -n 1,3p replays/$id/$f | cut -c1-400 >> $log; mkdir -p /verif/work/patch-$label-replays; mv replays/$id/* /verif/work/patch-$label-replays/; }); done
git checkout -- .
grep -c "^OK" $log; grep -A3 "^VIOLATION" $log
